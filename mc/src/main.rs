mod common;
mod engine;
mod gen;
mod props;

use engine::{Tier, WorkerArgs};

fn usage() -> ! {
    eprintln!(
        "usage: tx3-mc <ID> [--tier quick|thorough] [--replay FILE] [--print-case IDX]\n       tx3-mc --list"
    );
    std::process::exit(2);
}

fn main() {
    let args: Vec<String> = std::env::args().skip(1).collect();
    if args.is_empty() {
        usage();
    }
    if args[0] == "--list" {
        for id in props::ALL {
            println!("{id}");
        }
        return;
    }
    let id = args[0].clone();
    let mut tier = match std::env::var("VERIF_TIER").ok().as_deref() {
        Some("thorough") => Tier::Thorough,
        _ => Tier::Quick,
    };
    let mut replay: Option<String> = None;
    let mut replay_history: Option<String> = None;
    let mut print_case: Option<u64> = None;
    let mut worker: Option<(u64, u64)> = None;
    let mut progress = String::new();
    let mut keys = String::new();
    let mut resume_after: Option<u64> = None;
    let mut skip: Vec<u64> = vec![];
    let mut i = 1;
    while i < args.len() {
        let next = |i: &mut usize| -> String {
            *i += 1;
            args.get(*i).cloned().unwrap_or_else(|| usage())
        };
        match args[i].as_str() {
            "--tier" => {
                tier = match next(&mut i).as_str() {
                    "quick" => Tier::Quick,
                    "thorough" => Tier::Thorough,
                    _ => usage(),
                }
            }
            "quick" => tier = Tier::Quick,
            "thorough" => tier = Tier::Thorough,
            "--replay" => replay = Some(next(&mut i)),
            "--replay-history" => replay_history = Some(next(&mut i)),
            "--print-case" => print_case = next(&mut i).parse().ok(),
            "--worker" => {
                let w = next(&mut i);
                let (a, b) = w.split_once('/').unwrap_or_else(|| usage());
                worker = Some((a.parse().unwrap(), b.parse().unwrap()));
            }
            "--progress" => progress = next(&mut i),
            "--keys" => keys = next(&mut i),
            "--resume-after" => resume_after = next(&mut i).parse().ok(),
            "--skip" => skip = next(&mut i).split(',').filter_map(|x| x.parse().ok()).collect(),
            _ => usage(),
        }
        i += 1;
    }
    let seed: u64 = std::env::var("VERIF_SEED")
        .ok()
        .and_then(|s| s.parse::<i64>().ok())
        .map(|x| x as u64)
        .unwrap_or(0);

    let Some(prop) = props::get(&id) else {
        eprintln!("unknown property {id}");
        std::process::exit(2);
    };
    let prop = prop.as_ref();

    let code = if let Some(path) = replay {
        engine::replay_main(prop, &path)
    } else if let Some(path) = replay_history {
        engine::replay_history_main(prop, &path)
    } else if let Some(idx) = print_case {
        match engine::find_case(prop, tier, idx) {
            Some(c) => {
                println!("{}", serde_json::to_string_pretty(&c).unwrap());
                0
            }
            None => 2,
        }
    } else if let Some((shard, nshards)) = worker {
        engine::worker_main(
            prop,
            tier,
            seed,
            WorkerArgs {
                shard,
                nshards,
                resume_after,
                skip,
                progress,
                keys,
            },
        )
    } else {
        engine::coordinator_main(prop, tier, seed)
    };
    std::process::exit(code);
}
