//! Coordinator / worker engine shared by every property check.
//!
//! A property enumerates a deterministic, simplest-first list of cases (JSON values) and judges each one
//! with an oracle. The coordinator shards the enumeration over worker subprocesses, attributes aborts and
//! hangs to the case that was announced last, merges the results, matches violation signatures against
//! `/verif/known_findings.jsonl`, confirms new violations by replaying them in fresh processes, writes the
//! evidence file and prints the verdict lines.

pub mod dbx;
pub mod panics;

use serde::{Deserialize, Serialize};
use serde_json::{json, Value};
use std::collections::{BTreeMap, BTreeSet};
use std::io::{BufRead, BufReader, Write};
use std::os::unix::fs::FileExt;
use std::process::{Command, Stdio};
use std::sync::atomic::{AtomicU64, Ordering};
use std::time::{Duration, Instant};

pub const VERIF_ROOT: &str = "/verif";
/// a case that burns more than this much CPU time of its worker process has failed to terminate (the budget is CPU
/// time, not wall-clock time: on a loaded machine a case that needs a second can sit unscheduled for many)
pub const CASE_TIMEOUT_S: u64 = 10;
/// ... and so has one that is still not done after this much wall-clock time (blocked rather than busy; cases that
/// wait for child processes spend their time there)
pub const CASE_WALL_TIMEOUT_S: u64 = 300;
pub const WORKER_AS_LIMIT: u64 = 4 << 30;

#[derive(Debug, Clone, Copy, PartialEq, Eq)]
pub enum Tier {
    Quick,
    Thorough,
}

impl Tier {
    pub fn name(&self) -> &'static str {
        match self {
            Tier::Quick => "quick",
            Tier::Thorough => "thorough",
        }
    }
    pub fn is_thorough(&self) -> bool {
        matches!(self, Tier::Thorough)
    }
}

#[derive(Debug, Clone, Serialize, Deserialize)]
pub struct Violation {
    pub signature: String,
    pub what: String,
    #[serde(default)]
    pub detail: Value,
}

impl Violation {
    pub fn new(signature: impl Into<String>, what: impl Into<String>) -> Self {
        Self {
            signature: signature.into(),
            what: what.into(),
            detail: Value::Null,
        }
    }
    pub fn with_detail(mut self, detail: Value) -> Self {
        self.detail = detail;
        self
    }
    pub fn from_panic(p: &panics::PanicInfo) -> Self {
        Self {
            signature: p.signature(),
            what: format!("panic at {}:{}: {}", p.file, p.line, first_line(&p.message, 200)),
            detail: Value::Null,
        }
    }
}

pub fn first_line(s: &str, max: usize) -> String {
    let l = s.lines().next().unwrap_or("");
    let mut cut = l.len().min(max);
    while !l.is_char_boundary(cut) {
        cut -= 1;
    }
    l[..cut].to_string()
}

/// What judging one case (or one block of cases) produced.
#[derive(Debug, Default)]
pub struct Outcome {
    /// executions of the implementation performed for this case
    pub evals: u64,
    /// keys (hashes of canonical forms) of the distinct non-trivial cases judged
    pub nontrivial: Vec<u64>,
    /// observed outcome classes (for the vacuity guard)
    pub classes: BTreeMap<String, u64>,
    /// extra counters (states, transitions, orders observed ...), summed over cases
    pub extra: BTreeMap<String, u64>,
    /// extra maxima (max depth, max orbit ...)
    pub maxima: BTreeMap<String, u64>,
    pub violations: Vec<Violation>,
}

impl Outcome {
    pub fn one(class: impl Into<String>) -> Self {
        let mut o = Outcome::default();
        o.evals = 1;
        o.classes.insert(class.into(), 1);
        o
    }
    pub fn class(&mut self, c: impl Into<String>) {
        *self.classes.entry(c.into()).or_default() += 1;
    }
    pub fn count(&mut self, k: &str, n: u64) {
        *self.extra.entry(k.to_string()).or_default() += n;
    }
    pub fn max(&mut self, k: &str, n: u64) {
        let e = self.maxima.entry(k.to_string()).or_default();
        if n > *e {
            *e = n;
        }
    }
    pub fn key(&mut self, k: u64) {
        self.nontrivial.push(k);
    }
    pub fn violate(&mut self, v: Violation) {
        self.violations.push(v);
    }
}

pub fn hash64<T: std::hash::Hash + ?Sized>(t: &T) -> u64 {
    // FNV-1a based deterministic hasher (std's DefaultHasher with fixed keys is deterministic too, but
    // this keeps keys stable across toolchains)
    struct Fnv(u64);
    impl std::hash::Hasher for Fnv {
        fn finish(&self) -> u64 {
            self.0
        }
        fn write(&mut self, bytes: &[u8]) {
            for b in bytes {
                self.0 ^= *b as u64;
                self.0 = self.0.wrapping_mul(0x100000001b3);
            }
        }
    }
    let mut h = Fnv(0xcbf29ce484222325);
    t.hash(&mut h);
    std::hash::Hasher::finish(&h)
}

pub fn hash_json(v: &Value) -> u64 {
    hash64(&v.to_string())
}

pub trait Prop: Sync {
    fn id(&self) -> &'static str;
    /// "exploration" or "model_checking"
    fn level(&self) -> &'static str {
        "exploration"
    }
    fn rule(&self, tier: Tier) -> String;
    fn assumptions(&self) -> Vec<String>;
    /// whether every case is announced before it runs (needed when aborts / hangs are expected)
    fn isolated(&self) -> bool {
        false
    }
    /// true when the enumeration below the stated bound is complete
    fn exhaustive(&self, _tier: Tier) -> bool {
        true
    }
    fn bound(&self, tier: Tier) -> String;
    /// coarse family of a case, used in abort / hang signatures
    fn case_kind(&self, case: &Value) -> String {
        case.get("kind").and_then(|k| k.as_str()).unwrap_or("case").to_string()
    }
    /// what makes a case "the same input" for per-input known-finding lists (default: the whole case)
    fn case_identity(&self, case: &Value) -> String {
        case.to_string()
    }
    /// true when one observed violation is a proof by itself and may not show again on replay (C18: two different
    /// byte strings for one input; whether a replay hits the same hash order or process history is chance)
    fn observation_is_proof(&self) -> bool {
        false
    }
    fn enumerate(&self, tier: Tier, sink: &mut Sink);
    fn run(&self, case: &Value) -> Outcome;
}

// ---------------------------------------------------------------------------------------------
// Sink: the enumeration callback

enum SinkMode {
    /// run the cases of one shard
    Work,
    /// only find the case with the given index
    Find(u64),
    /// re-run, in this process, every case the worker of one shard ran up to and including `upto`, keeping the
    /// violations of `upto` only (replay of a violation that needs the history of its process to show)
    History { shard: u64, nshards: u64, seed: u64, upto: u64 },
}

pub struct Sink<'a> {
    mode: SinkMode,
    pub tier: Tier,
    idx: u64,
    found: Option<Value>,
    worker: Option<WorkerState<'a>>,
    history_prop: Option<&'a dyn Prop>,
    history_result: Option<Vec<Violation>>,
}

impl<'a> Sink<'a> {
    /// Offers the next case of the enumeration. `make` is only evaluated when the case is wanted.
    pub fn case(&mut self, make: impl FnOnce() -> Value) {
        let idx = self.idx;
        self.idx += 1;
        match self.mode {
            SinkMode::Find(want) => {
                if idx == want {
                    self.found = Some(make());
                }
            }
            SinkMode::History { shard, nshards, seed, upto } => {
                if idx > upto || idx.wrapping_add(seed) % nshards != shard {
                    return;
                }
                let case = make();
                let prop = self.history_prop.expect("history mode has a property");
                let res = panics::catch(|| prop.run(&case));
                if idx == upto {
                    self.history_result = Some(match res {
                        Ok(o) => o.violations,
                        Err(p) => vec![Violation::from_panic(&p)],
                    });
                }
            }
            SinkMode::Work => {
                let w = self.worker.as_mut().unwrap();
                if !w.wants(idx) {
                    return;
                }
                let case = make();
                w.execute(idx, case);
            }
        }
    }

    /// true when the enumeration can stop early (Find mode already satisfied)
    pub fn done(&self) -> bool {
        matches!(self.mode, SinkMode::Find(_)) && self.found.is_some()
    }

    pub fn next_index(&self) -> u64 {
        self.idx
    }
}

// ---------------------------------------------------------------------------------------------
// Worker

#[derive(Debug, Default, Serialize, Deserialize, Clone)]
struct SigAgg {
    #[serde(default)]
    known: Option<String>,
    count: u64,
    first_idx: u64,
    what: String,
    detail: Value,
    case: Value,
    /// further cases with this signature (kept for hangs only, up to 47: each is re-run before the hang is believed)
    #[serde(default)]
    others: Vec<(u64, Value)>,
}

#[derive(Debug, Default, Serialize, Deserialize, Clone)]
struct Agg {
    cases: u64,
    evals: u64,
    keys_written: u64,
    classes: BTreeMap<String, u64>,
    extra: BTreeMap<String, u64>,
    maxima: BTreeMap<String, u64>,
    sigs: BTreeMap<String, SigAgg>,
    samples: Vec<Value>,
    machinery: Vec<String>,
}

impl Agg {
    fn merge(&mut self, o: &Agg) {
        self.cases += o.cases;
        self.evals += o.evals;
        self.keys_written += o.keys_written;
        for (k, v) in &o.classes {
            *self.classes.entry(k.clone()).or_default() += v;
        }
        for (k, v) in &o.extra {
            *self.extra.entry(k.clone()).or_default() += v;
        }
        for (k, v) in &o.maxima {
            let e = self.maxima.entry(k.clone()).or_default();
            if *v > *e {
                *e = *v;
            }
        }
        for (k, v) in &o.sigs {
            match self.sigs.get_mut(k) {
                Some(e) => {
                    e.count += v.count;
                    let mut all: Vec<(u64, Value)> = e.others.drain(..).chain(v.others.iter().cloned()).collect();
                    if v.first_idx < e.first_idx {
                        all.push((e.first_idx, e.case.clone()));
                        let c = e.count;
                        *e = v.clone();
                        e.count = c;
                    } else if k.contains("\thang|") {
                        all.push((v.first_idx, v.case.clone()));
                    }
                    if k.contains("\thang|") {
                        all.sort_by_key(|x| x.0);
                        all.dedup_by_key(|x| x.0);
                        all.truncate(47);
                        e.others = all;
                    } else {
                        e.others = vec![];
                    }
                }
                None => {
                    self.sigs.insert(k.clone(), v.clone());
                }
            }
        }
        for s in &o.samples {
            if self.samples.len() < 4 {
                self.samples.push(s.clone());
            }
        }
        self.machinery.extend(o.machinery.iter().cloned());
    }
}

static CUR_IDX: AtomicU64 = AtomicU64::new(u64::MAX);
static CUR_PHASE: AtomicU64 = AtomicU64::new(0);

/// Names the stage of the subject that is about to run, so that a hang or abort can say where it
/// happened ("parse", "analyze", "lower", ...). At most 8 ASCII bytes are kept.
pub fn set_phase(name: &str) {
    let mut b = [0u8; 8];
    for (i, c) in name.bytes().take(8).enumerate() {
        b[i] = c;
    }
    CUR_PHASE.store(u64::from_le_bytes(b), Ordering::SeqCst);
    // keep the on-disk copy current: an abort leaves no chance to write it later
    PROGRESS_FD.with(|f| {
        if let Some(f) = f.borrow().as_ref() {
            let _ = f.write_all_at(&b, 16);
        }
    });
}

thread_local! {
    static PROGRESS_FD: std::cell::RefCell<Option<std::fs::File>> = const { std::cell::RefCell::new(None) };
}

fn phase_name(raw: u64) -> String {
    let b = raw.to_le_bytes();
    let s: String = b.iter().take_while(|c| **c != 0).map(|c| *c as char).collect();
    if s.is_empty() {
        "run".to_string()
    } else {
        s
    }
}
static CUR_START_MS: AtomicU64 = AtomicU64::new(0);
static CUR_START_CPU_MS: AtomicU64 = AtomicU64::new(0);

/// CPU time consumed by this process so far (all threads)
fn cpu_ms() -> u64 {
    let mut ts = libc::timespec { tv_sec: 0, tv_nsec: 0 };
    unsafe { libc::clock_gettime(libc::CLOCK_PROCESS_CPUTIME_ID, &mut ts) };
    ts.tv_sec as u64 * 1000 + ts.tv_nsec as u64 / 1_000_000
}

fn now_ms() -> u64 {
    use std::sync::OnceLock;
    static T0: OnceLock<Instant> = OnceLock::new();
    T0.get_or_init(Instant::now).elapsed().as_millis() as u64
}

pub struct WorkerState<'a> {
    prop: &'a dyn Prop,
    shard: u64,
    nshards: u64,
    seed: u64,
    resume_after: Option<u64>,
    skip: BTreeSet<u64>,
    progress: Option<std::fs::File>,
    keys: std::io::BufWriter<std::fs::File>,
    agg: Agg,
    last_ckpt: Instant,
    isolated: bool,
    findings: FindingSet,
    viol: std::io::BufWriter<std::fs::File>,
}

impl<'a> WorkerState<'a> {
    fn wants(&self, idx: u64) -> bool {
        if (idx.wrapping_add(self.seed)) % self.nshards != self.shard {
            return false;
        }
        if let Some(r) = self.resume_after {
            if idx <= r {
                return false;
            }
        }
        !self.skip.contains(&idx)
    }

    fn execute(&mut self, idx: u64, case: Value) {
        CUR_START_MS.store(now_ms(), Ordering::SeqCst);
        CUR_START_CPU_MS.store(cpu_ms(), Ordering::SeqCst);
        CUR_IDX.store(idx, Ordering::SeqCst);
        CUR_PHASE.store(0, Ordering::SeqCst);
        if self.isolated {
            if let Some(f) = &self.progress {
                let mut buf = [0u8; 24];
                buf[..8].copy_from_slice(&idx.to_le_bytes());
                buf[8..16].copy_from_slice(&1u64.to_le_bytes());
                let _ = f.write_all_at(&buf, 0);
            }
        }

        let prop = self.prop;
        let res = panics::catch(|| prop.run(&case));
        CUR_IDX.store(u64::MAX, Ordering::SeqCst);

        self.agg.cases += 1;
        if self.agg.samples.len() < 2 && self.shard == 0 {
            self.agg.samples.push(truncate_json(&case, 1500));
        }

        match res {
            Ok(o) => {
                self.agg.evals += o.evals;
                for k in &o.nontrivial {
                    let _ = self.keys.write_all(&k.to_le_bytes());
                }
                self.agg.keys_written += o.nontrivial.len() as u64;
                for (k, v) in o.classes {
                    *self.agg.classes.entry(k).or_default() += v;
                }
                for (k, v) in o.extra {
                    *self.agg.extra.entry(k).or_default() += v;
                }
                for (k, v) in o.maxima {
                    let e = self.agg.maxima.entry(k).or_default();
                    if v > *e {
                        *e = v;
                    }
                }
                for v in o.violations {
                    self.record(idx, &case, v);
                }
            }
            Err(p) => {
                if p.is_harness() {
                    self.agg.machinery.push(format!(
                        "harness panic on case {idx} at {}:{}: {}",
                        p.file,
                        p.line,
                        first_line(&p.message, 300)
                    ));
                } else {
                    // a panic of the subject that the property did not classify itself: it is a
                    // violation of whatever the property asserts (the call did not return)
                    self.agg.evals += 1;
                    *self.agg.classes.entry("panic".into()).or_default() += 1;
                    self.record(idx, &case, Violation::from_panic(&p));
                }
            }
        }

        if self.last_ckpt.elapsed() > Duration::from_millis(700) {
            self.checkpoint(idx);
        }
    }

    fn record(&mut self, idx: u64, case: &Value, v: Violation) {
        let idh = hash64(&self.prop.case_identity(case));
        let known = self.findings.covering(&v.signature, idh).map(|f| f.what.clone());
        let _ = writeln!(self.viol, "{idh:016x}\t{}", v.signature);
        let key = format!("{}\t{}", if known.is_some() { "K" } else { "N" }, v.signature);
        let e = self.agg.sigs.entry(key).or_insert_with(|| SigAgg {
            known,
            count: 0,
            first_idx: idx,
            what: v.what.clone(),
            detail: v.detail.clone(),
            case: case.clone(),
            others: vec![],
        });
        e.count += 1;
    }

    fn checkpoint(&mut self, idx: u64) {
        let _ = self.keys.flush();
        let _ = self.viol.flush();
        let line = json!({"ckpt": idx, "agg": self.agg});
        let out = std::io::stdout();
        let mut out = out.lock();
        let _ = writeln!(out, "{}", line);
        let _ = out.flush();
        self.last_ckpt = Instant::now();
    }
}

fn truncate_json(v: &Value, max: usize) -> Value {
    match v {
        Value::String(s) if s.len() > max => {
            let mut cut = max;
            while !s.is_char_boundary(cut) {
                cut -= 1;
            }
            Value::String(format!("{}…(+{} bytes)", &s[..cut], s.len() - cut))
        }
        Value::Array(a) => {
            let mut out: Vec<Value> = a.iter().take(40).map(|x| truncate_json(x, max)).collect();
            if a.len() > 40 {
                out.push(Value::String(format!("…(+{} items)", a.len() - 40)));
            }
            Value::Array(out)
        }
        Value::Object(o) => Value::Object(o.iter().map(|(k, x)| (k.clone(), truncate_json(x, max))).collect()),
        x => x.clone(),
    }
}

pub struct WorkerArgs {
    pub shard: u64,
    pub nshards: u64,
    pub resume_after: Option<u64>,
    pub skip: Vec<u64>,
    pub progress: String,
    pub keys: String,
}

pub fn worker_main(prop: &dyn Prop, tier: Tier, seed: u64, a: WorkerArgs) -> i32 {
    panics::install();
    // resource caps: address space (the analyzer can be driven to tens of GB by a six-line program)
    unsafe {
        let lim = libc::rlimit {
            rlim_cur: WORKER_AS_LIMIT,
            rlim_max: WORKER_AS_LIMIT,
        };
        libc::setrlimit(libc::RLIMIT_AS, &lim);
    }

    let progress = std::fs::OpenOptions::new()
        .create(true)
        .write(true)
        .truncate(true)
        .open(&a.progress)
        .ok();
    let keys = std::fs::File::create(&a.keys).expect("keys file");
    PROGRESS_FD.with(|f| *f.borrow_mut() = progress.as_ref().and_then(|p| p.try_clone().ok()));

    // watchdog: a case that runs longer than the cap is a hang
    {
        let progress_path = a.progress.clone();
        std::thread::spawn(move || {
            // wall-clock time of the current case as this thread saw it pass, a tick counting for at most two seconds:
            // a machine that is suspended and resumed (the clock jumps by minutes in every worker at once) has not
            // made the case any slower
            let (mut seen_idx, mut seen_ms, mut last) = (u64::MAX, 0u64, now_ms());
            loop {
            std::thread::sleep(Duration::from_millis(250));
            let now = now_ms();
            let tick = now.saturating_sub(last).min(2000);
            last = now;
            let idx = CUR_IDX.load(Ordering::SeqCst);
            if idx != seen_idx {
                seen_idx = idx;
                seen_ms = 0;
            } else {
                seen_ms += tick;
            }
            if idx == u64::MAX {
                continue;
            }
            let started_cpu = CUR_START_CPU_MS.load(Ordering::SeqCst);
            let busy_too_long = cpu_ms().saturating_sub(started_cpu) > CASE_TIMEOUT_S * 1000;
            let stuck_too_long = seen_ms > CASE_WALL_TIMEOUT_S * 1000;
            if (busy_too_long || stuck_too_long) && CUR_IDX.load(Ordering::SeqCst) == idx {
                if let Ok(f) = std::fs::OpenOptions::new().write(true).open(&progress_path) {
                    let mut buf = [0u8; 24];
                    buf[..8].copy_from_slice(&idx.to_le_bytes());
                    buf[8..16].copy_from_slice(&2u64.to_le_bytes());
                    buf[16..].copy_from_slice(&CUR_PHASE.load(Ordering::SeqCst).to_le_bytes());
                    let _ = f.write_all_at(&buf, 0);
                }
                unsafe { libc::_exit(86) };
            }
            }
        });
    }

    let state = WorkerState {
        prop,
        shard: a.shard,
        nshards: a.nshards,
        seed,
        resume_after: a.resume_after,
        skip: a.skip.into_iter().collect(),
        progress,
        keys: std::io::BufWriter::new(keys),
        agg: Agg::default(),
        last_ckpt: Instant::now(),
        // always announce: a hang or abort must be attributable in every property (one pwrite per
        // case; block-style properties have few, large cases)
        isolated: true,
        findings: FindingSet::load(prop.id()),
        viol: std::io::BufWriter::new(std::fs::File::create(format!("{}.viol", a.keys)).expect("viol file")),
    };

    let mut sink = Sink {
        mode: SinkMode::Work,
        tier,
        idx: 0,
        found: None,
        worker: Some(state),
        history_prop: None,
        history_result: None,
    };
    prop.enumerate(tier, &mut sink);
    let total = sink.idx;
    let mut state = sink.worker.take().unwrap();
    let _ = state.keys.flush();
    let _ = state.viol.flush();
    let line = json!({"done": total, "agg": state.agg});
    let out = std::io::stdout();
    let mut out = out.lock();
    let _ = writeln!(out, "{}", line);
    let _ = out.flush();
    0
}

pub fn find_case(prop: &dyn Prop, tier: Tier, idx: u64) -> Option<Value> {
    let mut sink = Sink {
        mode: SinkMode::Find(idx),
        tier,
        idx: 0,
        found: None,
        worker: None,
        history_prop: None,
        history_result: None,
    };
    prop.enumerate(tier, &mut sink);
    sink.found
}

// ---------------------------------------------------------------------------------------------
// Known findings

#[derive(Debug, Deserialize, Clone)]
pub struct Finding {
    pub property: String,
    pub signature: String,
    pub status: String,
    #[serde(default)]
    pub what: String,
    #[serde(default)]
    pub commit: Option<String>,
    /// optional file (relative to /verif) listing the identity hashes of the inputs this finding covers;
    /// a violation with a matching signature on an input that is not listed is a new violation
    #[serde(default)]
    pub inputs_file: Option<String>,
}

pub struct FindingSet {
    entries: Vec<(Finding, Option<std::collections::HashSet<u64>>)>,
}

impl FindingSet {
    pub fn load(property: &str) -> Self {
        let entries = load_findings()
            .into_iter()
            .filter(|f| f.property == property && f.status == "open")
            .map(|f| {
                let set = f.inputs_file.as_ref().map(|p| {
                    std::fs::read_to_string(format!("{VERIF_ROOT}/{p}"))
                        .unwrap_or_default()
                        .lines()
                        .filter_map(|l| u64::from_str_radix(l.trim(), 16).ok())
                        .collect::<std::collections::HashSet<u64>>()
                });
                (f, set)
            })
            .collect();
        FindingSet { entries }
    }

    /// the open finding (if any) that covers this signature on this input
    pub fn covering(&self, sig: &str, identity_hash: u64) -> Option<&Finding> {
        self.entries
            .iter()
            .find(|(f, set)| sig_matches(&f.signature, sig) && set.as_ref().map(|s| s.contains(&identity_hash)).unwrap_or(true))
            .map(|(f, _)| f)
    }
}

pub fn load_findings() -> Vec<Finding> {
    let path = format!("{VERIF_ROOT}/known_findings.jsonl");
    let Ok(text) = std::fs::read_to_string(path) else {
        return vec![];
    };
    text.lines()
        .filter(|l| !l.trim().is_empty() && !l.trim_start().starts_with("//"))
        .filter_map(|l| serde_json::from_str::<Finding>(l).ok())
        .collect()
}

fn sig_matches(pattern: &str, sig: &str) -> bool {
    // `*` matches any run of characters
    fn go(p: &[u8], s: &[u8]) -> bool {
        match p.first() {
            None => s.is_empty(),
            Some(b'*') => (0..=s.len()).any(|i| go(&p[1..], &s[i..])),
            Some(c) => s.first() == Some(c) && go(&p[1..], &s[1..]),
        }
    }
    go(pattern.as_bytes(), sig.as_bytes())
}

// ---------------------------------------------------------------------------------------------
// Coordinator

struct ShardRun {
    agg: Agg,
    total: Option<u64>,
}

fn run_shard(
    exe: &std::path::Path,
    prop: &dyn Prop,
    tier: Tier,
    seed: u64,
    shard: u64,
    nshards: u64,
    dir: &str,
) -> ShardRun {
    let mut merged = Agg::default();
    let mut total = None;
    let mut resume_after: Option<u64> = None;
    let mut skip: Vec<u64> = vec![];
    let mut attempt = 0u32;

    loop {
        attempt += 1;
        if attempt > 200 {
            merged.machinery.push(format!("shard {shard}: more than 200 worker restarts"));
            break;
        }
        let progress = format!("{dir}/progress.{shard}");
        let keys = format!("{dir}/keys.{shard}.{attempt}");
        let mut cmd = Command::new(exe);
        cmd.arg(prop.id())
            .arg("--tier")
            .arg(tier.name())
            .arg("--worker")
            .arg(format!("{shard}/{nshards}"))
            .arg("--progress")
            .arg(&progress)
            .arg("--keys")
            .arg(&keys)
            .env("VERIF_SEED", seed.to_string())
            .stdin(Stdio::null())
            .stdout(Stdio::piped())
            .stderr(Stdio::null());
        if let Some(r) = resume_after {
            cmd.arg("--resume-after").arg(r.to_string());
        }
        if !skip.is_empty() {
            cmd.arg("--skip")
                .arg(skip.iter().map(|x| x.to_string()).collect::<Vec<_>>().join(","));
        }
        let mut child = match cmd.spawn() {
            Ok(c) => c,
            Err(e) => {
                merged.machinery.push(format!("cannot spawn worker: {e}"));
                break;
            }
        };
        let stdout = child.stdout.take().unwrap();
        let mut last_ckpt: Option<(u64, Agg)> = None;
        let mut done: Option<(u64, Agg)> = None;
        for line in BufReader::new(stdout).lines() {
            let Ok(line) = line else { break };
            let Ok(v) = serde_json::from_str::<Value>(&line) else { continue };
            if let Some(idx) = v.get("ckpt").and_then(|x| x.as_u64()) {
                if let Ok(agg) = serde_json::from_value::<Agg>(v["agg"].clone()) {
                    last_ckpt = Some((idx, agg));
                }
            } else if let Some(t) = v.get("done").and_then(|x| x.as_u64()) {
                if let Ok(agg) = serde_json::from_value::<Agg>(v["agg"].clone()) {
                    done = Some((t, agg));
                }
            }
        }
        let status = child.wait();
        if let Some((t, agg)) = done {
            merged.merge(&agg);
            total = Some(t);
            break;
        }

        // the worker died: attribute to the announced case
        let mut buf = [0u8; 24];
        let announced = std::fs::File::open(&progress)
            .ok()
            .and_then(|f| f.read_exact_at(&mut buf, 0).ok())
            .map(|_| {
                (
                    u64::from_le_bytes(buf[..8].try_into().unwrap()),
                    u64::from_le_bytes(buf[8..16].try_into().unwrap()),
                )
            });
        let phase = phase_name(u64::from_le_bytes(buf[16..24].try_into().unwrap()));
        let how = match &status {
            Ok(s) => {
                use std::os::unix::process::ExitStatusExt;
                if let Some(sig) = s.signal() {
                    format!("signal-{sig}")
                } else {
                    format!("exit-{}", s.code().unwrap_or(-1))
                }
            }
            Err(e) => format!("wait-error-{e}"),
        };
        let Some((idx, st)) = announced else {
            merged.machinery.push(format!("shard {shard}: worker died ({how}) before announcing a case"));
            break;
        };
        if st == 0 {
            merged.machinery.push(format!("shard {shard}: worker died ({how}) outside a case"));
            break;
        }
        let kind = if st == 2 { "hang" } else { "abort" };
        if let Some((cidx, agg)) = last_ckpt {
            merged.merge(&agg);
            resume_after = Some(cidx.max(resume_after.unwrap_or(0)));
        }
        if skip.contains(&idx) {
            merged
                .machinery
                .push(format!("shard {shard}: case {idx} killed the worker twice ({how})"));
            break;
        }
        skip.push(idx);
        let case = find_case(prop, tier, idx).unwrap_or(Value::Null);
        let ck = prop.case_kind(&case);
        let sig = if st == 2 {
            format!("hang|{ck}|{phase}")
        } else {
            format!("abort|{how}|{ck}|{phase}")
        };
        let idh = hash64(&prop.case_identity(&case));
        let known = FindingSet::load(prop.id()).covering(&sig, idh).map(|f| f.what.clone());
        if let Ok(mut f) = std::fs::OpenOptions::new().create(true).append(true).open(format!("{dir}/keys.{shard}.0.viol")) {
            let _ = writeln!(f, "{idh:016x}\t{sig}");
        }
        let key = format!("{}\t{sig}", if known.is_some() { "K" } else { "N" });
        let e = merged.sigs.entry(key).or_insert_with(|| SigAgg {
            known,
            count: 0,
            first_idx: idx,
            what: format!("{kind} ({how}) while running the case (cap {CASE_TIMEOUT_S}s of CPU time / {} GiB)", WORKER_AS_LIMIT >> 30),
            detail: Value::Null,
            case: case.clone(),
            others: vec![],
        });
        if st == 2 && e.count > 0 && e.others.len() < 47 && e.first_idx != idx {
            e.others.push((idx, case.clone()));
        }
        e.count += 1;
        merged.cases += 1;
        merged.evals += 1;
        *merged.classes.entry(kind.to_string()).or_default() += 1;
    }

    ShardRun { agg: merged, total }
}

fn count_distinct_keys(dir: &str) -> u64 {
    let mut all: Vec<u64> = Vec::new();
    if let Ok(rd) = std::fs::read_dir(dir) {
        for e in rd.flatten() {
            let name = e.file_name().to_string_lossy().to_string();
            if !name.starts_with("keys.") || name.ends_with(".viol") {
                continue;
            }
            if let Ok(bytes) = std::fs::read(e.path()) {
                for c in bytes.chunks_exact(8) {
                    all.push(u64::from_le_bytes(c.try_into().unwrap()));
                }
            }
        }
    }
    all.sort_unstable();
    all.dedup();
    all.len() as u64
}

fn sanitize(sig: &str) -> String {
    let mut s: String = sig
        .chars()
        .map(|c| if c.is_ascii_alphanumeric() || c == '-' || c == '_' || c == '.' { c } else { '_' })
        .collect();
    if s.len() > 90 {
        let h = hash64(sig);
        s.truncate(70);
        s.push_str(&format!("_{h:016x}"));
    }
    s
}

/// Runs the case of a replay file and reports the signatures it violates.
pub fn replay_file(prop: &dyn Prop, path: &str) -> Result<Vec<Violation>, String> {
    let text = std::fs::read_to_string(path).map_err(|e| format!("cannot read {path}: {e}"))?;
    let v: Value = serde_json::from_str(&text).map_err(|e| format!("bad replay file: {e}"))?;
    let case = v.get("case").cloned().ok_or("replay file has no case")?;
    match panics::catch(|| prop.run(&case)) {
        Ok(o) => Ok(o.violations),
        Err(p) if p.is_harness() => Err(format!("harness panic: {} at {}:{}", p.message, p.file, p.line)),
        Err(p) => Ok(vec![Violation::from_panic(&p)]),
    }
}

/// Re-runs the cases that preceded the recorded one in its worker process (same shard, same seed, same tier) and
/// then the recorded case itself: a violation that depends on what the process did before (state kept outside the
/// instance under test) shows again, one that was chance does not.
pub fn replay_with_history(prop: &dyn Prop, path: &str) -> Result<Vec<Violation>, String> {
    let text = std::fs::read_to_string(path).map_err(|e| format!("cannot read {path}: {e}"))?;
    let v: Value = serde_json::from_str(&text).map_err(|e| format!("bad replay file: {e}"))?;
    let h = v.get("history").ok_or("replay file records no process history")?;
    let num = |k: &str| h.get(k).and_then(|x| x.as_u64()).ok_or(format!("history.{k} missing"));
    let tier = match v.get("tier").and_then(|t| t.as_str()) {
        Some("thorough") => Tier::Thorough,
        _ => Tier::Quick,
    };
    let mut sink = Sink {
        mode: SinkMode::History { shard: num("shard")?, nshards: num("nshards")?, seed: num("seed")?, upto: num("upto")? },
        tier,
        idx: 0,
        found: None,
        worker: None,
        history_prop: Some(prop),
        history_result: None,
    };
    prop.enumerate(tier, &mut sink);
    if std::env::var("VERIF_DEBUG").is_ok() {
        eprintln!("history replay: enumeration reached index {}, result {:?}", sink.idx, sink.history_result.as_ref().map(|v| v.iter().map(|x| x.signature.clone()).collect::<Vec<_>>()));
    }
    sink.history_result.ok_or_else(|| "the recorded case index was not reached by the enumeration".to_string())
}

pub fn replay_main(prop: &dyn Prop, path: &str) -> i32 {
    // a replayed case that hangs is reported as still violating
    {
        let id = prop.id().to_string();
        let path = path.to_string();
        std::thread::spawn(move || {
            // (wall-clock time as in the worker's watchdog: a tick counts for at most two seconds)
            let (c0, mut last, mut seen_ms) = (cpu_ms(), now_ms(), 0u64);
            while cpu_ms().saturating_sub(c0) <= CASE_TIMEOUT_S * 1000 && seen_ms <= CASE_WALL_TIMEOUT_S * 1000 {
                std::thread::sleep(Duration::from_millis(250));
                let now = now_ms();
                seen_ms += now.saturating_sub(last).min(2000);
                last = now;
            }
            println!("REPLAY-VIOLATION signature=hang :: no result after {CASE_TIMEOUT_S}s of CPU time");
            println!("VIOLATION property={id} replay={path}");
            unsafe { libc::_exit(1) };
        });
    }
    unsafe {
        let lim = libc::rlimit {
            rlim_cur: WORKER_AS_LIMIT,
            rlim_max: WORKER_AS_LIMIT,
        };
        libc::setrlimit(libc::RLIMIT_AS, &lim);
    }
    match replay_file(prop, path) {
        Err(e) => {
            eprintln!("machinery: {e}");
            2
        }
        Ok(vs) => {
            let expected = std::fs::read_to_string(path)
                .ok()
                .and_then(|t| serde_json::from_str::<Value>(&t).ok())
                .and_then(|v| v.get("signature").and_then(|s| s.as_str()).map(|s| s.to_string()));
            let mut hit = false;
            for v in &vs {
                println!("REPLAY-VIOLATION signature={} :: {}", v.signature, v.what);
                if Some(&v.signature) == expected.as_ref() || expected.is_none() || expected.as_deref().map(|e| e.starts_with("hang|")).unwrap_or(false) {
                    hit = true;
                }
            }
            if hit {
                println!("VIOLATION property={} replay={}", prop.id(), path);
                1
            } else {
                // perhaps it needs what the process did before: re-run the worker's cases up to the recorded one, in a
                // fresh process (this one has already run the case once)
                if std::env::var("VERIF_REPLAY_NO_HISTORY").map(|v| v == "1").unwrap_or(false) {
                    println!("replay: recorded violation not reproduced");
                    return 0;
                }
                let out = std::env::current_exe().ok().and_then(|exe| {
                    Command::new(exe).arg(prop.id()).arg("--replay-history").arg(path).stdin(Stdio::null()).stderr(Stdio::inherit()).output().ok()
                });
                match out {
                    Some(out) if out.status.code() == Some(1) => {
                        print!("{}", String::from_utf8_lossy(&out.stdout));
                        1
                    }
                    _ => {
                        println!("replay: recorded violation not reproduced");
                        0
                    }
                }
            }
        }
    }
}

/// `--replay-history FILE`: exit 1 iff the recorded violation shows after the cases that preceded it in its worker
pub fn replay_history_main(prop: &dyn Prop, path: &str) -> i32 {
    std::thread::spawn(|| {
        std::thread::sleep(Duration::from_secs(1800));
        println!("replay: history replay exceeded 30 minutes");
        unsafe { libc::_exit(2) };
    });
    unsafe {
        let lim = libc::rlimit { rlim_cur: WORKER_AS_LIMIT, rlim_max: WORKER_AS_LIMIT };
        libc::setrlimit(libc::RLIMIT_AS, &lim);
    }
    let expected = std::fs::read_to_string(path)
        .ok()
        .and_then(|t| serde_json::from_str::<Value>(&t).ok())
        .and_then(|v| v.get("signature").and_then(|s| s.as_str()).map(|s| s.to_string()));
    match replay_with_history(prop, path) {
        Ok(vs) if vs.iter().any(|v| Some(&v.signature) == expected.as_ref()) => {
            for v in vs.iter().filter(|v| Some(&v.signature) == expected.as_ref()) {
                println!("REPLAY-VIOLATION signature={} (after the preceding cases of its worker process) :: {}", v.signature, v.what);
            }
            println!("VIOLATION property={} replay={}", prop.id(), path);
            1
        }
        Ok(_) => 0,
        Err(e) => {
            println!("replay: history not replayed: {e}");
            0
        }
    }
}

pub fn coordinator_main(prop: &dyn Prop, tier: Tier, seed: u64) -> i32 {
    let t0 = Instant::now();
    let id = prop.id();
    let exe = std::env::current_exe().expect("current exe");
    let dir = format!("{VERIF_ROOT}/target/run/{id}");
    let _ = std::fs::remove_dir_all(&dir);
    std::fs::create_dir_all(&dir).expect("run dir");

    let nshards: u64 = std::env::var("VERIF_WORKERS")
        .ok()
        .and_then(|x| x.parse().ok())
        .unwrap_or_else(|| std::thread::available_parallelism().map(|n| n.get() as u64).unwrap_or(8))
        .clamp(1, 64);

    let runs: Vec<ShardRun> = std::thread::scope(|s| {
        let handles: Vec<_> = (0..nshards)
            .map(|shard| {
                let exe = exe.clone();
                let dir = dir.clone();
                s.spawn(move || run_shard(&exe, prop, tier, seed, shard, nshards, &dir))
            })
            .collect();
        handles.into_iter().map(|h| h.join().expect("shard thread")).collect()
    });

    let mut agg = Agg::default();
    let mut totals = BTreeSet::new();
    for r in &runs {
        agg.merge(&r.agg);
        if let Some(t) = r.total {
            totals.insert(t);
        }
    }
    let mut machinery = agg.machinery.clone();
    if totals.len() > 1 {
        machinery.push(format!("workers disagree on the size of the enumeration: {totals:?}"));
    }
    let total_cases = totals.iter().next().copied().unwrap_or(0);
    if agg.cases != total_cases && machinery.is_empty() {
        machinery.push(format!(
            "cases executed ({}) differ from cases enumerated ({total_cases})",
            agg.cases
        ));
    }
    let distinct = count_distinct_keys(&dir);

    // verdicts (workers already matched every violation against the known findings, per input)
    let mut known_lines = vec![];
    let mut new_sigs: Vec<(String, SigAgg)> = vec![];
    for (key, sa) in &agg.sigs {
        let sig = key.split_once('\t').map(|x| x.1).unwrap_or(key).to_string();
        match &sa.known {
            Some(what) => known_lines.push(format!(
                "KNOWN-FINDING: property={id} {what} [signature {sig}, {} cases; first: {}]",
                sa.count,
                first_line(&sa.what, 160)
            )),
            None => new_sigs.push((sig, sa.clone())),
        }
    }

    if let Ok(dump) = std::env::var("VERIF_DUMP_INPUTS") {
        // maintenance mode: write the identity hashes of every violating input whose signature matches
        let pat = std::env::var("VERIF_DUMP_PATTERN").unwrap_or_else(|_| "*".into());
        let mut all: Vec<u64> = vec![];
        if let Ok(rd) = std::fs::read_dir(&dir) {
            for e in rd.flatten() {
                if e.file_name().to_string_lossy().ends_with(".viol") {
                    for l in std::fs::read_to_string(e.path()).unwrap_or_default().lines() {
                        if let Some((h, sg)) = l.split_once('\t') {
                            if sig_matches(&pat, sg) {
                                if let Ok(h) = u64::from_str_radix(h, 16) {
                                    all.push(h);
                                }
                            }
                        }
                    }
                }
            }
        }
        all.sort_unstable();
        all.dedup();
        let text: String = all.iter().map(|h| format!("{h:016x}\n")).collect();
        let _ = std::fs::write(&dump, text);
        println!("dumped {} violating input identities matching {pat} to {dump}", all.len());
    }

    let replay_dir = format!("{VERIF_ROOT}/replays/{id}");
    let mut violation_lines = vec![];
    let mut unconfirmed: Vec<String> = vec![];
    let mut extended_replays_left = 24u32;
    let mut history_fallbacks_left = 6u32;
    for (sig, sa) in &new_sigs {
        let _ = std::fs::create_dir_all(&replay_dir);
        let path = format!("{replay_dir}/{}.json", sanitize(sig));
        let doc = json!({
            "property": id,
            "signature": sig,
            "what": sa.what,
            "detail": sa.detail,
            "cases_with_this_signature": sa.count,
            "case_index": sa.first_idx,
            "tier": tier.name(),
            "case": sa.case,
            // the worker process that ran the case, for violations that only show after the cases before it
            "history": {"shard": sa.first_idx.wrapping_add(seed) % nshards, "nshards": nshards, "seed": seed, "upto": sa.first_idx},
        });
        let _ = std::fs::write(&path, serde_json::to_string_pretty(&doc).unwrap());

        // confirm in fresh processes (aborts / hangs cannot be replayed in-process safely: they are
        // confirmed by the restart logic above, which already ran the case in its own process)
        if sig.starts_with("abort|") {
            violation_lines.push(format!("VIOLATION property={id} replay={path}"));
            continue;
        }
        // a case that exceeded the CPU cap was taken out of its worker and skipped. The cap is generous for what a case
        // does, but time a process spends in the kernel (page reclaim on a machine short of memory) counts too: every
        // such case is run again, four times in a fresh process and once after its worker's history. A replay that
        // exceeds the cap again, or shows any violation, confirms; a case that completes clean every time has been
        // judged after all and is noted.
        if sig.starts_with("hang|") {
            let mut cases: Vec<(u64, Value, String)> = vec![(sa.first_idx, sa.case.clone(), path.clone())];
            for (k, (idx, case)) in sa.others.iter().enumerate() {
                let p = format!("{replay_dir}/{}.{}.json", sanitize(sig), k + 2);
                let mut d = doc.clone();
                d["case_index"] = json!(idx);
                d["case"] = case.clone();
                d["history"] = json!({"shard": idx.wrapping_add(seed) % nshards, "nshards": nshards, "seed": seed, "upto": idx});
                let _ = std::fs::write(&p, serde_json::to_string_pretty(&d).unwrap());
                cases.push((*idx, case.clone(), p));
            }
            let mut confirmed: Option<String> = None;
            if sa.count as usize > cases.len() {
                confirmed = Some(path.clone());
            }
            'cases: for (_, _, p) in &cases {
                if confirmed.is_some() {
                    break;
                }
                for attempt in 0..5 {
                    let with_history = attempt == 4;
                    if with_history {
                        if history_fallbacks_left == 0 {
                            break;
                        }
                        history_fallbacks_left -= 1;
                    }
                    let out = Command::new(&exe)
                        .arg(id)
                        .arg("--replay")
                        .arg(p)
                        .env("VERIF_REPLAY_NO_HISTORY", if with_history { "0" } else { "1" })
                        .stdin(Stdio::null())
                        .stderr(Stdio::null())
                        .output();
                    match out {
                        Ok(out) if out.status.code() == Some(0) => {}
                        _ => {
                            confirmed = Some(p.clone());
                            break 'cases;
                        }
                    }
                }
            }
            match confirmed {
                Some(p) => violation_lines.push(format!("VIOLATION property={id} replay={p}")),
                None => println!(
                    "NOTE: {} case(s) exceeded the cap of {CASE_TIMEOUT_S}s of CPU time once ({sig}); each was run again in fresh processes (4 times alone, once after its worker's history) and completed without a violation every time: judged by those runs, not counted",
                    cases.len()
                ),
            }
            continue;
        }
        // two replays in fresh processes; when they disagree, up to six more: the outcome of the case then depends on
        // something the case does not fix (hash order inside the implementation), and every replay that shows the
        // violation again is an independent second observation of it
        let mut confirmations = 0;
        let mut replays = 0;
        while replays < 8 {
            // the extra replays are bounded over the whole run, and only the first two may fall back on re-running the
            // worker's history (a run with dozens of order-dependent signatures would otherwise take an hour to say so)
            if replays >= 2 {
                if extended_replays_left == 0 {
                    break;
                }
                extended_replays_left -= 1;
            }
            replays += 1;
            let out = Command::new(&exe)
                .arg(id)
                .arg("--replay")
                .arg(&path)
                .env("VERIF_REPLAY_NO_HISTORY", if replays > 2 || history_fallbacks_left == 0 { "1" } else { "0" })
                .stdin(Stdio::null())
                .stderr(Stdio::null())
                .output();
            if let Ok(out) = out {
                if out.status.code() == Some(1) {
                    confirmations += 1;
                }
            }
            if replays >= 2 && confirmations == replays {
                break;
            }
            if replays >= 4 && confirmations == 0 {
                break;
            }
        }
        if confirmations < replays.min(2) && history_fallbacks_left > 0 {
            history_fallbacks_left -= 1;
        }
        if confirmations == replays {
            violation_lines.push(format!("VIOLATION property={id} replay={path}"));
        } else if confirmations > 0 {
            println!("NOTE: {sig} reproduced {confirmations}/{replays} times on replay: the outcome of this case depends on something the case does not fix (hash order inside the implementation)");
            violation_lines.push(format!("VIOLATION property={id} replay={path}"));
        } else if prop.observation_is_proof() {
            println!("NOTE: {sig} was observed in the run and reproduced {confirmations}/{replays} times on replay (the observation is the counterexample)");
            violation_lines.push(format!("VIOLATION property={id} replay={path}"));
        } else {
            unconfirmed.push(format!("violation {sig} reproduced {confirmations}/{replays} times on replay ({path}): not deterministic"));
        }
    }
    // signatures that were seen in the run but never again on replay: beside confirmed violations they are noted (the run
    // has its verdict, and the replay budget is bounded); alone they mean the machinery cannot stand by what it saw
    if violation_lines.is_empty() {
        machinery.extend(unconfirmed);
    } else {
        for u in unconfirmed.iter().take(10) {
            println!("NOTE: {u}");
        }
        if unconfirmed.len() > 10 {
            println!("NOTE: ... and {} more signatures seen in the run and not again on replay", unconfirmed.len() - 10);
        }
    }

    let distinct_outcomes = agg.classes.len() as u64;
    if agg.evals == 0 {
        machinery.push("no case was evaluated".into());
    }
    if distinct < 2 && agg.evals > 0 {
        machinery.push(format!("vacuous run: {distinct} distinct non-trivial cases"));
    }

    // evidence
    let wall = t0.elapsed().as_secs_f64();
    let mut coverage = serde_json::Map::new();
    coverage.insert("evaluations".into(), json!(agg.evals));
    coverage.insert("distinct_nontrivial".into(), json!(distinct));
    coverage.insert("rule".into(), json!(prop.rule(tier)));
    coverage.insert("samples".into(), json!(agg.samples));
    coverage.insert("cases".into(), json!(agg.cases));
    coverage.insert("bound_completed".into(), json!(prop.bound(tier)));
    coverage.insert("exhaustive".into(), json!(prop.exhaustive(tier) && machinery.is_empty()));
    coverage.insert("distinct_outcomes".into(), json!(distinct_outcomes));
    coverage.insert("outcome_classes".into(), json!(agg.classes));
    coverage.insert("workers".into(), json!(nshards));
    for (k, v) in &agg.extra {
        coverage.insert(k.clone(), json!(v));
    }
    for (k, v) in &agg.maxima {
        coverage.insert(k.clone(), json!(v));
    }
    if prop.level() == "model_checking" {
        let tr = agg.extra.get("transitions").copied().unwrap_or(0);
        coverage.entry("states").or_insert(json!(0));
        coverage.entry("transitions").or_insert(json!(0));
        coverage
            .entry("traces_validated_against_impl")
            .or_insert(json!(tr));
    }
    coverage.insert(
        "known_findings_seen".into(),
        json!(agg
            .sigs
            .iter()
            .filter(|(_, a)| a.known.is_some())
            .map(|(s, a)| json!({"signature": s.split_once('\t').map(|x| x.1).unwrap_or(s), "cases": a.count}))
            .collect::<Vec<_>>()),
    );
    coverage.insert(
        "new_violations".into(),
        json!(new_sigs
            .iter()
            .map(|(s, a)| json!({"signature": s, "cases": a.count, "what": a.what}))
            .collect::<Vec<_>>()),
    );
    if !machinery.is_empty() {
        coverage.insert("machinery_errors".into(), json!(machinery));
    }
    let evidence = json!({
        "property_id": id,
        "tier": tier.name(),
        "seed": seed,
        "level": prop.level(),
        "coverage": Value::Object(coverage),
        "assumptions": prop.assumptions(),
        "wall_s": (wall * 100.0).round() / 100.0,
        "violations": violation_lines.len(),
    });
    let _ = std::fs::create_dir_all(format!("{VERIF_ROOT}/evidence"));
    let _ = std::fs::write(
        format!("{VERIF_ROOT}/evidence/{id}.json"),
        serde_json::to_string_pretty(&evidence).unwrap(),
    );

    println!(
        "{id} {}: cases={} evaluations={} distinct_nontrivial={distinct} outcomes={distinct_outcomes} wall={wall:.1}s",
        tier.name(),
        agg.cases,
        agg.evals
    );
    for (k, v) in &agg.classes {
        println!("  outcome {k}: {v}");
    }
    for l in &known_lines {
        println!("{l}");
    }
    for l in &violation_lines {
        println!("{l}");
    }
    if !machinery.is_empty() {
        for m in &machinery {
            println!("MACHINERY-ERROR: {m}");
        }
        return 2;
    }
    if !violation_lines.is_empty() {
        return 1;
    }
    0
}
