//! Panic capture: a process-wide hook records message + location + (cached) enclosing function of the
//! first frame that belongs to a tx3 crate, so that a panic raised by the subject can be told apart from a
//! bug of the harness itself and can be given a signature that survives line drift.

use std::cell::RefCell;
use std::collections::HashMap;
use std::panic::{catch_unwind, AssertUnwindSafe};
use std::sync::{Mutex, Once};

#[derive(Debug, Clone)]
pub struct PanicInfo {
    pub message: String,
    pub file: String,
    pub line: u32,
    /// enclosing function of the innermost frame inside a tx3 crate ("?" when none)
    pub function: String,
}

impl PanicInfo {
    /// true when the panic was raised by harness code rather than by the subject
    pub fn is_harness(&self) -> bool {
        // no frame of a tx3 crate on the stack at all: the subject cannot have raised it
        self.function == "?"
    }

    pub fn signature(&self) -> String {
        format!("panic|{}|{}", self.function, normalize_message(&self.message))
    }
}

/// Strips digits, quoted payloads and long hex so that the same panic site with different data gives
/// the same signature.
pub fn normalize_message(msg: &str) -> String {
    let first = msg.lines().next().unwrap_or("");
    // structured payloads (pest pairs, debug dumps of values) are data, not part of the site's identity
    let first = match first.find(|c| c == '(' || c == '[' || c == '{') {
        Some(pos) if pos >= 12 => &first[..pos],
        _ => first,
    };
    let mut out = String::new();
    let mut in_quote = false;
    let mut last_hash = false;
    for ch in first.chars() {
        if ch == '"' {
            in_quote = !in_quote;
            out.push('"');
            continue;
        }
        if in_quote {
            continue;
        }
        if ch.is_ascii_digit() {
            if !last_hash {
                out.push('#');
                last_hash = true;
            }
            continue;
        }
        last_hash = false;
        out.push(ch);
    }
    if out.len() > 120 {
        let mut cut = 120;
        while !out.is_char_boundary(cut) {
            cut -= 1;
        }
        out.truncate(cut);
    }
    out
}

thread_local! {
    static LAST: RefCell<Option<PanicInfo>> = const { RefCell::new(None) };
    static DEPTH: RefCell<u32> = const { RefCell::new(0) };
}

/// resolved enclosing function per distinct raw call chain (hash of the return addresses)
static FN_CACHE: Mutex<Option<HashMap<u64, String>>> = Mutex::new(None);

fn call_chain_key() -> u64 {
    let mut buf = [std::ptr::null_mut::<libc::c_void>(); 48];
    let n = unsafe { libc::backtrace(buf.as_mut_ptr(), buf.len() as libc::c_int) } as usize;
    let mut h: u64 = 0xcbf29ce484222325;
    for p in buf.iter().take(n) {
        h ^= *p as usize as u64;
        h = h.wrapping_mul(0x100000001b3);
    }
    h
}
static INSTALL: Once = Once::new();

fn is_subject_symbol(sym: &str) -> bool {
    let s = sym.trim_start_matches('<');
    s.starts_with("tx3_lang::")
        || s.starts_with("tx3_tir::")
        || s.starts_with("tx3_cardano::")
        || s.starts_with("tx3_resolver::")
        || s.starts_with("tx3c::")
        || sym.contains(" as tx3_lang::")
        || sym.contains(" as tx3_tir::")
        || sym.contains(" as tx3_cardano::")
        || sym.contains(" as tx3_resolver::")
}

fn clean_symbol(sym: &str) -> String {
    // drop the trailing ::h<16 hex> and closure markers
    let mut s = sym.trim().to_string();
    if let Some(pos) = s.rfind("::h") {
        if s.len() - pos == 19 && s[pos + 3..].chars().all(|c| c.is_ascii_hexdigit()) {
            s.truncate(pos);
        }
    }
    while s.ends_with("::{{closure}}") {
        let n = s.len() - "::{{closure}}".len();
        s.truncate(n);
    }
    s
}

fn enclosing_function() -> String {
    let bt = std::backtrace::Backtrace::force_capture().to_string();
    if std::env::var("VERIF_DEBUG_BT").is_ok() { eprintln!("{bt}"); }
    for line in bt.lines() {
        let l = line.trim_start();
        // frame lines look like "12: symbol"; location lines look like "at file:line:col"
        if l.starts_with("at ") {
            continue;
        }
        // frame lines look like "12: symbol"; frames inlined into it follow as bare "symbol" lines
        let sym = match l.split_once(": ") {
            Some((num, sym)) if !num.is_empty() && num.chars().all(|c| c.is_ascii_digit()) => sym,
            _ => l,
        };
        if is_subject_symbol(sym) {
            return clean_symbol(sym);
        }
    }
    "?".to_string()
}

pub fn install() {
    INSTALL.call_once(|| {
        std::panic::set_hook(Box::new(|info| {
            let message = if let Some(s) = info.payload().downcast_ref::<&str>() {
                s.to_string()
            } else if let Some(s) = info.payload().downcast_ref::<String>() {
                s.clone()
            } else {
                "<non-string panic payload>".to_string()
            };
            let (file, line) = info
                .location()
                .map(|l| (l.file().to_string(), l.line()))
                .unwrap_or(("?".to_string(), 0));

            if DEPTH.with(|d| *d.borrow()) == 0 {
                // not inside a `catch` region: a bug of the harness itself, keep it visible
                eprintln!("harness panic at {file}:{line}: {message}");
            }
            let key = call_chain_key();
            let cached = {
                let guard = FN_CACHE.lock().unwrap_or_else(|e| e.into_inner());
                guard.as_ref().and_then(|m| m.get(&key).cloned())
            };
            let function = match cached {
                Some(f) => f,
                None => {
                    let f = enclosing_function();
                    let mut guard = FN_CACHE.lock().unwrap_or_else(|e| e.into_inner());
                    guard.get_or_insert_with(HashMap::new).insert(key, f.clone());
                    f
                }
            };

            LAST.with(|l| {
                *l.borrow_mut() = Some(PanicInfo {
                    message,
                    file,
                    line,
                    function,
                })
            });
        }));
    });
}

/// Runs `f`, turning a panic into `Err(PanicInfo)`.
pub fn catch<T>(f: impl FnOnce() -> T) -> Result<T, PanicInfo> {
    install();
    LAST.with(|l| *l.borrow_mut() = None);
    DEPTH.with(|d| *d.borrow_mut() += 1);
    let r = catch_unwind(AssertUnwindSafe(f));
    DEPTH.with(|d| *d.borrow_mut() -= 1);
    match r {
        Ok(v) => Ok(v),
        Err(_) => Err(LAST.with(|l| l.borrow_mut().take()).unwrap_or(PanicInfo {
            message: "<panic without hook record>".into(),
            file: "?".into(),
            line: 0,
            function: "?".into(),
        })),
    }
}

pub fn debug_backtrace() -> String {
    std::backtrace::Backtrace::force_capture().to_string()
}
