//! Deviation-bounded exhaustive exploration of a choice tree (the CHESS iterative-context-bounding loop
//! with "preemption" replaced by "departure from the default choice").
//!
//! A generator is a deterministic function of a `Chooser`. Alternative 0 of every choice point is the
//! default. `explore(k, gen, visit)` runs the generator for every choice sequence that contains at most
//! `k` non-default choices; the tree may be dynamic (a choice can open further choice points).

pub struct Chooser {
    prefix: Vec<usize>,
    pos: usize,
    /// (arity, chosen) for every choice point met in this execution
    pub points: Vec<(usize, usize)>,
    pub diverged: bool,
}

impl Chooser {
    pub fn new(prefix: Vec<usize>) -> Self {
        Self {
            prefix,
            pos: 0,
            points: vec![],
            diverged: false,
        }
    }

    /// Picks one of `n` alternatives (0 = default).
    pub fn choose(&mut self, n: usize) -> usize {
        assert!(n >= 1, "choice point without alternatives");
        let c = if self.pos < self.prefix.len() {
            let c = self.prefix[self.pos];
            if c >= n {
                // replaying a prefix that does not fit the tree is a machinery error
                self.diverged = true;
                0
            } else {
                c
            }
        } else {
            0
        };
        self.pos += 1;
        self.points.push((n, c));
        c
    }

    pub fn flag(&mut self) -> bool {
        self.choose(2) == 1
    }

    /// Picks an element of a slice (first = default).
    pub fn pick<'a, T>(&mut self, xs: &'a [T]) -> &'a T {
        &xs[self.choose(xs.len())]
    }

    pub fn choices(&self) -> Vec<usize> {
        self.points.iter().map(|(_, c)| *c).collect()
    }

    pub fn deviations(&self) -> usize {
        self.points.iter().filter(|(_, c)| *c != 0).count()
    }
}

/// Enumerates every execution with at most `k` deviations, fewest deviations first is NOT guaranteed by
/// plain DFS, so the exploration is run once per level d = 0..=k and only executions with exactly d
/// deviations are reported at level d (the first counterexample therefore has the fewest deviations).
pub fn explore<T>(
    k: usize,
    gen: &mut dyn FnMut(&mut Chooser) -> T,
    visit: &mut dyn FnMut(&[usize], usize, T),
) {
    for level in 0..=k {
        let mut stack: Vec<Vec<usize>> = vec![vec![]];
        while let Some(prefix) = stack.pop() {
            let mut ch = Chooser::new(prefix.clone());
            let value = gen(&mut ch);
            assert!(!ch.diverged, "dbx: replay of prefix {:?} diverged from the choice tree", prefix);
            let devs = ch.deviations();
            let choices = ch.choices();
            if devs == level {
                // trim trailing defaults for a canonical representation
                let mut canon = choices.clone();
                while canon.last() == Some(&0) {
                    canon.pop();
                }
                visit(&canon, devs, value);
            }
            if devs < level {
                // branch on every later point; push in reverse so that the earliest point and the
                // smallest alternative are explored first
                let mut next = vec![];
                for i in prefix.len()..ch.points.len() {
                    let (arity, _) = ch.points[i];
                    for alt in 1..arity {
                        let mut p = choices[..i].to_vec();
                        p.push(alt);
                        next.push(p);
                    }
                }
                next.reverse();
                stack.extend(next);
            }
        }
    }
}

#[cfg(test)]
mod tests {
    use super::*;

    #[test]
    fn counts_match_binomials() {
        // 4 static binary points: executions with <= 2 deviations = 1 + 4 + 6
        let mut n = 0;
        explore(
            2,
            &mut |c: &mut Chooser| {
                for _ in 0..4 {
                    c.flag();
                }
            },
            &mut |_, _, _| n += 1,
        );
        assert_eq!(n, 11);
    }

    #[test]
    fn dynamic_tree() {
        // a deviation at the first point opens a ternary point
        let mut seen = vec![];
        explore(
            2,
            &mut |c: &mut Chooser| {
                let a = c.flag();
                let b = if a { c.choose(3) } else { 0 };
                (a, b)
            },
            &mut |_, _, v| seen.push(v),
        );
        assert_eq!(seen, vec![(false, 0), (true, 0), (true, 1), (true, 2)]);
    }
}
