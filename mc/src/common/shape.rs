//! Hand-written structural image of a TIR value as JSON. It reads the public fields of the model types
//! directly (exhaustive matches, no serde), so it is independent of the `Serialize` implementations it is
//! used to judge. Unordered containers are emitted in a canonical order.

use serde_json::{json, Map, Value};
use tx3_tir::model::assets::{AssetClass, CanonicalAssets};
use tx3_tir::model::core::{Type, Utxo, UtxoRef};
use tx3_tir::model::v1beta0::*;

fn num(n: i128) -> Value {
    if let Ok(x) = i64::try_from(n) {
        json!(x)
    } else {
        Value::String(format!("int:{n}"))
    }
}

fn bytes(b: &[u8]) -> Value {
    Value::String(format!("h:{}", hex::encode(b)))
}

pub fn ty(t: &Type) -> Value {
    match t {
        Type::Undefined => json!("Undefined"),
        Type::Unit => json!("Unit"),
        Type::Int => json!("Int"),
        Type::Bool => json!("Bool"),
        Type::Bytes => json!("Bytes"),
        Type::Address => json!("Address"),
        Type::Utxo => json!("Utxo"),
        Type::UtxoRef => json!("UtxoRef"),
        Type::AnyAsset => json!("AnyAsset"),
        Type::List => json!("List"),
        Type::Map => json!("Map"),
        Type::Custom(n) => json!({"Custom": n}),
    }
}

pub fn utxo_ref(r: &UtxoRef) -> Value {
    json!({"txid": bytes(&r.txid), "index": r.index})
}

fn class(c: &AssetClass) -> Value {
    match c {
        AssetClass::Naked => json!("Naked"),
        AssetClass::Named(n) => json!({"Named": bytes(n)}),
        AssetClass::Defined(p, n) => json!({"Defined": [bytes(p), bytes(n)]}),
    }
}

pub fn assets(a: &CanonicalAssets) -> Value {
    let mut items: Vec<Value> = a.iter().map(|(c, n)| json!([class(c), num(*n)])).collect();
    items.sort_by_key(|v| v.to_string());
    json!({"$assets": items})
}

pub fn utxo(u: &Utxo) -> Value {
    json!({
        "ref": utxo_ref(&u.r#ref),
        "address": bytes(&u.address),
        "assets": assets(&u.assets),
        "datum": u.datum.as_ref().map(expr).unwrap_or(Value::Null),
        "script": u.script.as_ref().map(expr).unwrap_or(Value::Null),
    })
}

fn asset_expr(a: &AssetExpr, sums: bool) -> Value {
    json!({"policy": expr_with(&a.policy, sums), "asset_name": expr_with(&a.asset_name, sums), "amount": expr_with(&a.amount, sums)})
}

fn query(q: &InputQuery, sums: bool) -> Value {
    json!({
        "address": expr_with(&q.address, sums),
        "min_amount": expr_with(&q.min_amount, sums),
        "ref": expr_with(&q.r#ref, sums),
        "many": q.many,
        "collateral": q.collateral,
    })
}

fn adhoc(d: &AdHocDirective, sums: bool) -> Value {
    let mut keys: Vec<&String> = d.data.keys().collect();
    keys.sort();
    let mut m = Map::new();
    for k in keys {
        m.insert(k.clone(), expr_with(&d.data[k], sums));
    }
    json!({"name": d.name, "data": Value::Object(m)})
}

pub fn expr(e: &Expression) -> Value {
    expr_with(e, false)
}

/// `sums`: asset lists are sums, their entries are emitted in sorted order
pub fn expr_with(e: &Expression, sums: bool) -> Value {
    let x = |e: &Expression| expr_with(e, sums);
    match e {
        Expression::None => json!("None"),
        Expression::List(v) => json!({"List": v.iter().map(x).collect::<Vec<_>>()}),
        Expression::Map(v) => json!({"Map": v.iter().map(|(k, v)| json!([x(k), x(v)])).collect::<Vec<_>>()}),
        Expression::Tuple(t) => json!({"Tuple": [x(&t.0), x(&t.1)]}),
        Expression::Struct(s) => json!({"Struct": {"constructor": s.constructor, "fields": s.fields.iter().map(x).collect::<Vec<_>>()}}),
        Expression::Bytes(b) => json!({"Bytes": bytes(b)}),
        Expression::Number(n) => json!({"Number": num(*n)}),
        Expression::Bool(b) => json!({"Bool": b}),
        Expression::String(s) => json!({"String": s}),
        Expression::Address(b) => json!({"Address": bytes(b)}),
        Expression::Hash(b) => json!({"Hash": bytes(b)}),
        Expression::UtxoRefs(v) => json!({"UtxoRefs": v.iter().map(utxo_ref).collect::<Vec<_>>()}),
        Expression::UtxoSet(s) => {
            let mut items: Vec<Value> = s.iter().map(utxo).collect();
            items.sort_by_key(|v| v.to_string());
            json!({"UtxoSet": items})
        }
        Expression::Assets(v) => {
            let mut items: Vec<Value> = v.iter().map(|a| asset_expr(a, sums)).collect();
            if sums {
                items.sort_by_key(|v| v.to_string());
            }
            json!({"Assets": items})
        }
        Expression::EvalParam(p) => json!({"EvalParam": match p.as_ref() {
            Param::Set(v) => json!({"Set": x(v)}),
            Param::ExpectValue(n, t) => json!({"ExpectValue": [n, ty(t)]}),
            Param::ExpectInput(n, q) => json!({"ExpectInput": [n, query(q, sums)]}),
            Param::ExpectFees => json!("ExpectFees"),
        }}),
        Expression::EvalBuiltIn(op) => json!({"EvalBuiltIn": match op.as_ref() {
            BuiltInOp::NoOp(a) => json!({"NoOp": x(a)}),
            BuiltInOp::Add(a, b) => json!({"Add": [x(a), x(b)]}),
            BuiltInOp::Sub(a, b) => json!({"Sub": [x(a), x(b)]}),
            BuiltInOp::Concat(a, b) => json!({"Concat": [x(a), x(b)]}),
            BuiltInOp::Negate(a) => json!({"Negate": x(a)}),
            BuiltInOp::Property(a, b) => json!({"Property": [x(a), x(b)]}),
        }}),
        Expression::EvalCompiler(op) => json!({"EvalCompiler": match op.as_ref() {
            CompilerOp::BuildScriptAddress(a) => json!({"BuildScriptAddress": x(a)}),
            CompilerOp::ComputeMinUtxo(a) => json!({"ComputeMinUtxo": x(a)}),
            CompilerOp::ComputeTipSlot => json!("ComputeTipSlot"),
            CompilerOp::ComputeSlotToTime(a) => json!({"ComputeSlotToTime": x(a)}),
            CompilerOp::ComputeTimeToSlot(a) => json!({"ComputeTimeToSlot": x(a)}),
        }}),
        Expression::EvalCoerce(c) => json!({"EvalCoerce": match c.as_ref() {
            Coerce::NoOp(a) => json!({"NoOp": x(a)}),
            Coerce::IntoAssets(a) => json!({"IntoAssets": x(a)}),
            Coerce::IntoDatum(a) => json!({"IntoDatum": x(a)}),
            Coerce::IntoScript(a) => json!({"IntoScript": x(a)}),
        }}),
        Expression::AdHocDirective(d) => json!({"AdHocDirective": adhoc(d, sums)}),
    }
}

pub fn tx(t: &Tx) -> Value {
    tx_with(t, false)
}

pub fn tx_sums(t: &Tx) -> Value {
    tx_with(t, true)
}

fn tx_with(t: &Tx, sums: bool) -> Value {
    let x = |e: &Expression| expr_with(e, sums);
    json!({
        "fees": x(&t.fees),
        "references": t.references.iter().map(x).collect::<Vec<_>>(),
        "inputs": t.inputs.iter().map(|i| json!({"name": i.name, "utxos": x(&i.utxos), "redeemer": x(&i.redeemer)})).collect::<Vec<_>>(),
        "outputs": t.outputs.iter().map(|o| json!({"address": x(&o.address), "datum": x(&o.datum), "amount": x(&o.amount), "optional": o.optional})).collect::<Vec<_>>(),
        "validity": t.validity.as_ref().map(|v| json!({"since": x(&v.since), "until": x(&v.until)})).unwrap_or(Value::Null),
        "mints": t.mints.iter().map(|m| json!({"amount": x(&m.amount), "redeemer": x(&m.redeemer)})).collect::<Vec<_>>(),
        "burns": t.burns.iter().map(|m| json!({"amount": x(&m.amount), "redeemer": x(&m.redeemer)})).collect::<Vec<_>>(),
        "adhoc": t.adhoc.iter().map(|d| adhoc(d, sums)).collect::<Vec<_>>(),
        "collateral": t.collateral.iter().map(|c| json!({"utxos": x(&c.utxos)})).collect::<Vec<_>>(),
        "signers": t.signers.as_ref().map(|s| json!({"signers": s.signers.iter().map(x).collect::<Vec<_>>()})).unwrap_or(Value::Null),
        "metadata": t.metadata.iter().map(|m| json!({"key": x(&m.key), "value": x(&m.value)})).collect::<Vec<_>>(),
    })
}
