//! Reference big-step semantics [[P]](args, utxos, fee, network) over the generator's own syntax tree
//! (`gen::prog::GProg`), written from the language description and independent of lowering.rs / reduce /
//! compile. It yields the transaction the template denotes, or says that the value does not fit its
//! ledger field (then the real pipeline must fail), or that the denotation is undefined (overflow of the
//! reference arithmetic, an ambiguous construct) and the case is skipped.

use crate::common::cbor::BigInt;
use crate::common::pipeline::{base_address, script_address, CURSOR_SLOT, CURSOR_TIME_MS};
use crate::common::plutus::PData;
use crate::gen::prog::*;
use std::collections::{BTreeMap, BTreeSet};
use tx3_tir::model::assets::CanonicalAssets;
use tx3_tir::model::core::{Utxo, UtxoRef};
use tx3_tir::model::v1beta0 as tir;
use tx3_tir::reduce::{ArgMap, ArgValue};

pub type Assets = BTreeMap<(Vec<u8>, Vec<u8>), i128>;

#[derive(Debug, Clone, PartialEq)]
pub struct ExpOutput {
    pub address: Vec<u8>,
    pub lovelace: i128,
    pub assets: Assets,
    pub datum: Option<PData>,
    /// (language, script bytes) of the reference script a `cardano::publish` output carries
    pub script_ref: Option<(u8, Vec<u8>)>,
}

#[derive(Debug, Clone, PartialEq)]
pub enum MetaVal {
    Int(i128),
    Text(String),
    Bytes(Vec<u8>),
}

#[derive(Debug, Clone, PartialEq, Default)]
pub struct Expected {
    pub inputs: BTreeSet<(Vec<u8>, u64)>,
    pub outputs: Vec<ExpOutput>,
    pub mint: Assets,
    pub ttl: Option<i128>,
    pub start: Option<i128>,
    pub signers: BTreeSet<Vec<u8>>,
    pub reference_inputs: BTreeSet<(Vec<u8>, u64)>,
    pub collateral: BTreeSet<(Vec<u8>, u64)>,
    pub metadata: BTreeMap<u64, MetaVal>,
    /// reward account (29 bytes: header + credential) -> lovelace
    pub withdrawals: BTreeMap<Vec<u8>, i128>,
    pub donation: Option<i128>,
    /// the data of the spend (tag 0) and reward (tag 3) redeemers the template writes, as a sorted multiset (which
    /// item each guards is C08's question); `mint_redeemers_written` = some mint / burn block carries one
    pub redeemers: Vec<(u64, String)>,
    pub mint_redeemers_written: bool,
    pub fee: u64,
    pub network: u8,
}

#[derive(Debug, Clone, PartialEq)]
pub enum Denotation {
    Tx(Expected),
    /// the exact value does not fit the ledger field: the pipeline must return an error
    MustFail(String),
    /// outside what the reference semantics defines
    Undefined(String),
}

pub const ENV_LIMIT: i128 = 12_345;
pub const ENV_TAG: [u8; 2] = [0x7A, 0x67];
pub const MEMO: [u8; 3] = [0xD0, 0x0D, 0x1E];

pub fn party_address(name: &str, network: u8) -> Vec<u8> {
    match name.to_lowercase().as_str() {
        "sender" => base_address(1, network),
        _ => base_address(2, network),
    }
}

pub fn ref_param() -> UtxoRef {
    UtxoRef { txid: vec![0xDD; 32], index: 4 }
}

fn lov(n: i128) -> CanonicalAssets {
    CanonicalAssets::from_naked_amount(n)
}

fn gold(n: i128) -> CanonicalAssets {
    CanonicalAssets::from_defined_asset(&POLICY_A, b"GOLD", n)
}

fn mk(tag: u8, index: u32, addr: &[u8], assets: CanonicalAssets) -> Utxo {
    Utxo { r#ref: UtxoRef { txid: vec![tag; 32], index }, address: addr.to_vec(), assets, datum: None, script: None }
}

/// UTxO assignment for every input block (and collateral) of the scenario
pub fn utxos_for(sc: &Scenario) -> BTreeMap<String, Vec<Utxo>> {
    let sender = party_address("sender", sc.network);
    let mut m = BTreeMap::new();
    for i in &sc.prog.inputs {
        let us = if i.name == "a" {
            let mut base = match sc.utxo {
                0 => vec![mk(0x51, 0, &sender, lov(5_000_000))],
                1 => vec![mk(0x52, 1, &sender, lov(2_000_000) + gold(7))],
                2 => vec![mk(0x53, 2, &sender, lov(50_000_000) + gold(1))],
                _ => vec![mk(0x54, 1, &sender, lov(3_000_000)), mk(0x54, 0, &sender, lov(4_000_000) + gold(2))],
            };
            if sc.extra_lovelace != 0 {
                base[0].assets = base[0].assets.clone() + lov(sc.extra_lovelace);
            }
            base
        } else {
            let mut u = mk(0x61, 7, &sender, lov(1_500_000));
            u.datum = Some(tir::Expression::Struct(tir::StructExpr {
                constructor: 0,
                fields: vec![
                    tir::Expression::Number(41),
                    tir::Expression::Bytes(vec![1, 2]),
                    tir::Expression::List(vec![tir::Expression::Number(10), tir::Expression::Number(20), tir::Expression::Number(30)]),
                ],
            }));
            vec![u]
        };
        m.insert(i.name.to_lowercase(), us);
    }
    if let Some(c) = &sc.prog.collateral {
        let u = match &c.r#ref {
            Some(RefE::Lit(t, i)) => Utxo { r#ref: UtxoRef { txid: t.clone(), index: *i as u32 }, address: sender.clone(), assets: lov(6_000_000), datum: None, script: None },
            _ => mk(0x71, 0, &sender, lov(6_000_000)),
        };
        m.insert("collateral".to_string(), vec![u]);
    }
    m
}

/// value given to a Bytes parameter: `pol` / `tname` name an asset class, everything else is a memo
pub fn bytes_param_value(name: &str) -> Vec<u8> {
    match name {
        "pol" => POLICY_A.to_vec(),
        "tname" => b"GOLD".to_vec(),
        _ => MEMO.to_vec(),
    }
}

pub fn args_for(sc: &Scenario) -> ArgMap {
    let mut a: ArgMap = BTreeMap::new();
    for p in &sc.prog.parties {
        a.insert(p.to_lowercase(), ArgValue::Address(party_address(p, sc.network)));
    }
    for (n, t) in &sc.prog.params {
        let v = match (n.as_str(), t) {
            ("q", _) => ArgValue::Int(sc.q),
            ("n", _) => ArgValue::Int(sc.n),
            (n, ParamTy::Bytes) => ArgValue::Bytes(bytes_param_value(n)),
            (_, ParamTy::UtxoRef) => ArgValue::UtxoRef(ref_param()),
            (_, ParamTy::Bool) => ArgValue::Bool(true),
            (_, ParamTy::Int) => ArgValue::Int(9),
        };
        a.insert(n.to_lowercase(), v);
    }
    for (n, t) in &sc.prog.env {
        let v = match t {
            ParamTy::Int => ArgValue::Int(ENV_LIMIT),
            _ => ArgValue::Bytes(ENV_TAG.to_vec()),
        };
        a.insert(n.to_lowercase(), v);
    }
    a
}

struct Ev<'a> {
    sc: &'a Scenario,
    utxos: BTreeMap<String, Vec<Utxo>>,
}

type R<T> = Result<T, Denotation>;

fn undef<T>(why: &str) -> R<T> {
    Err(Denotation::Undefined(why.to_string()))
}

fn datum_to_pdata(e: &tir::Expression) -> R<PData> {
    Ok(match e {
        tir::Expression::Number(n) => PData::Int(BigInt::from_i128(*n)),
        tir::Expression::Bytes(b) => PData::Bytes(b.clone()),
        tir::Expression::List(xs) => PData::List(xs.iter().map(datum_to_pdata).collect::<R<Vec<_>>>()?),
        tir::Expression::Struct(s) => PData::Constr(s.constructor as u64, s.fields.iter().map(datum_to_pdata).collect::<R<Vec<_>>>()?),
        _ => return undef("store datum kind"),
    })
}

impl<'a> Ev<'a> {
    fn local(&self, name: &str) -> R<&LocalE> {
        self.sc.prog.locals.iter().find(|(n, _)| n == name).map(|(_, e)| e).ok_or(Denotation::Undefined("unknown local".into()))
    }

    fn input_datum(&self, name: &str) -> R<PData> {
        let us = self.utxos.get(&name.to_lowercase()).ok_or(Denotation::Undefined("unknown input".into()))?;
        if us.len() != 1 {
            return undef("datum of a multi-UTxO input");
        }
        match &us[0].datum {
            Some(d) => datum_to_pdata(d),
            None => undef("input without datum"),
        }
    }

    fn int(&self, e: &IntE) -> R<i128> {
        let ovf = || Denotation::MustFail("arithmetic overflow: an intermediate value does not fit 128 bits".into());
        Ok(match e {
            IntE::Lit(n) => *n as i128,
            IntE::Param(n) => match n.as_str() {
                "q" => self.sc.q,
                "n" => self.sc.n,
                _ => 9,
            },
            IntE::Env(_) => ENV_LIMIT,
            IntE::Local(n) => match self.local(n)? {
                LocalE::Int(x) => self.int(x)?,
                _ => return undef("local kind"),
            },
            IntE::Add(a, b) => self.int(a)?.checked_add(self.int(b)?).ok_or_else(ovf)?,
            IntE::Sub(a, b) => self.int(a)?.checked_sub(self.int(b)?).ok_or_else(ovf)?,
            IntE::Neg(a) => self.int(a)?.checked_neg().ok_or_else(ovf)?,
            IntE::Paren(a) => self.int(a)?,
            IntE::InputField(i, idx, _) => match self.input_datum(i)? {
                PData::Constr(_, fs) => match fs.get(*idx) {
                    Some(PData::Int(n)) => n.to_i128().ok_or_else(ovf)?,
                    _ => return undef("field is not an integer"),
                },
                _ => return undef("datum is not a record"),
            },
            IntE::InputListItem(i, idx, _, ix) => match self.input_datum(i)? {
                PData::Constr(_, fs) => match fs.get(*idx) {
                    Some(PData::List(xs)) => {
                        let k = self.int(ix)?;
                        match usize::try_from(k).ok().and_then(|k| xs.get(k)) {
                            Some(PData::Int(n)) => n.to_i128().ok_or_else(ovf)?,
                            _ => return Err(Denotation::MustFail("list index out of range".into())),
                        }
                    }
                    _ => return undef("field is not a list"),
                },
                _ => return undef("datum is not a record"),
            },
            IntE::TipSlot => CURSOR_SLOT as i128,
            IntE::SlotToTime(s) => {
                let s = self.int(s)?;
                if s < 0 {
                    return Err(Denotation::MustFail("negative slot".into()));
                }
                CURSOR_TIME_MS as i128 + (s - CURSOR_SLOT as i128) * 1000
            }
            IntE::TimeToSlot(t) => {
                let t = self.int(t)?;
                if t < 0 {
                    return Err(Denotation::MustFail("negative time".into()));
                }
                let d = t - CURSOR_TIME_MS as i128;
                if d < 0 && d % 1000 != 0 {
                    return undef("time before the cursor, not on a slot boundary (rounding direction unspecified)");
                }
                CURSOR_SLOT as i128 + d / 1000
            }
        })
    }

    fn bytes(&self, e: &BytesE) -> R<Vec<u8>> {
        Ok(match e {
            BytesE::Hex(b) => b.clone(),
            BytesE::Str(s) => s.as_bytes().to_vec(),
            BytesE::Param(n) => bytes_param_value(n),
            BytesE::Env(_) => ENV_TAG.to_vec(),
            BytesE::Local(n) => match self.local(n)? {
                LocalE::Bytes(x) => self.bytes(x)?,
                _ => return undef("local kind"),
            },
            BytesE::Concat(a, b) => {
                let mut v = self.bytes(a)?;
                v.extend(self.bytes(b)?);
                v
            }
            BytesE::PolicyName(_, hash) => hash.clone(),
            BytesE::InputField(i, idx, _) => match self.input_datum(i)? {
                PData::Constr(_, fs) => match fs.get(*idx) {
                    Some(PData::Bytes(b)) => b.clone(),
                    _ => return undef("field is not bytes"),
                },
                _ => return undef("datum is not a record"),
            },
        })
    }

    fn asset(&self, e: &AssetE) -> R<Assets> {
        let ovf = || Denotation::MustFail("arithmetic overflow: an intermediate value does not fit 128 bits".into());
        let single = |k: (Vec<u8>, Vec<u8>), n: i128| -> Assets { BTreeMap::from([(k, n)]) };
        Ok(match e {
            AssetE::Ada(n) => single((vec![], vec![]), self.int(n)?),
            AssetE::Tok(a, n) => {
                let (_, p, name) = &self.sc.prog.assets[*a];
                single((p.clone(), name.as_bytes().to_vec()), self.int(n)?)
            }
            AssetE::AnyAsset(p, n, q) => single((self.bytes(p)?, self.bytes(n)?), self.int(q)?),
            AssetE::Input(name) => {
                let us = self.utxos.get(&name.to_lowercase()).ok_or(Denotation::Undefined("unknown input".into()))?;
                let mut m = Assets::new();
                for u in us {
                    for (c, amt) in u.assets.iter() {
                        let key = match c {
                            tx3_tir::model::assets::AssetClass::Naked => (vec![], vec![]),
                            tx3_tir::model::assets::AssetClass::Named(n) => (vec![], n.clone()),
                            tx3_tir::model::assets::AssetClass::Defined(p, n) => (p.clone(), n.clone()),
                        };
                        let e = m.entry(key).or_insert(0);
                        *e = e.checked_add(*amt).ok_or_else(ovf)?;
                    }
                }
                m
            }
            AssetE::Fees => single((vec![], vec![]), self.sc.fee as i128),
            AssetE::Local(n) => match self.local(n)? {
                LocalE::Asset(x) => self.asset(x)?,
                _ => return undef("local kind"),
            },
            AssetE::Add(a, b) => {
                let mut m = self.asset(a)?;
                for (k, v) in self.asset(b)? {
                    let e = m.entry(k).or_insert(0);
                    *e = e.checked_add(v).ok_or_else(ovf)?;
                }
                m
            }
            AssetE::Sub(a, b) => {
                let mut m = self.asset(a)?;
                for (k, v) in self.asset(b)? {
                    let e = m.entry(k).or_insert(0);
                    *e = e.checked_sub(v).ok_or_else(ovf)?;
                }
                m
            }
            AssetE::Paren(a) => self.asset(a)?,
            AssetE::Neg(a) => {
                let mut m = self.asset(a)?;
                for v in m.values_mut() {
                    *v = v.checked_neg().ok_or_else(ovf)?;
                }
                m
            }
        })
    }

    fn data(&self, e: &DataE) -> R<PData> {
        Ok(match e {
            DataE::Int(x) => PData::Int(BigInt::from_i128(self.int(x)?)),
            DataE::Bytes(x) => PData::Bytes(self.bytes(x)?),
            DataE::Bool(b) => PData::Constr(*b as u64, vec![]),
            DataE::Unit => PData::Constr(0, vec![]),
            DataE::Rec { ty, fields, spread } => {
                let n = self.sc.prog.types[*ty].cases[0].1.len();
                let base = match spread {
                    Some(s) => match self.input_datum(s)? {
                        PData::Constr(_, fs) => Some(fs),
                        _ => return undef("spread source is not a record"),
                    },
                    None => None,
                };
                let mut out = vec![];
                for i in 0..n {
                    if let Some((_, v)) = fields.iter().find(|(fi, _)| *fi == i) {
                        out.push(self.data(v)?);
                    } else if let Some(b) = &base {
                        out.push(b.get(i).cloned().ok_or(Denotation::Undefined("spread source too short".into()))?);
                    } else {
                        return undef("missing field without spread");
                    }
                }
                PData::Constr(0, out)
            }
            DataE::Var { ty, case, fields } => {
                let n = self.sc.prog.types[*ty].cases[*case].1.len();
                let mut out = vec![];
                for i in 0..n {
                    match fields.iter().find(|(fi, _)| *fi == i) {
                        Some((_, v)) => out.push(self.data(v)?),
                        None => return undef("missing variant field"),
                    }
                }
                PData::Constr(*case as u64, out)
            }
            DataE::List(xs) => PData::List(xs.iter().map(|x| self.data(x)).collect::<R<Vec<_>>>()?),
            DataE::Map(es) => PData::Map(es.iter().map(|(k, v)| Ok((self.data(k)?, self.data(v)?))).collect::<R<Vec<_>>>()?),
            DataE::InputDatum(n) => self.input_datum(n)?,
            DataE::Local(n) => match self.local(n)? {
                LocalE::Data(x) => self.data(x)?,
                LocalE::Int(x) => PData::Int(BigInt::from_i128(self.int(x)?)),
                LocalE::Bytes(x) => PData::Bytes(self.bytes(x)?),
                LocalE::Asset(_) => return undef("asset local as data"),
            },
        })
    }

    fn addr(&self, e: &AddrE) -> R<Vec<u8>> {
        Ok(match e {
            AddrE::Party(n) => party_address(n, self.sc.network),
            AddrE::Policy(i) => script_address(&self.sc.prog.policies[*i].1, self.sc.network),
            AddrE::Hex(b) | AddrE::HexString(b) | AddrE::Bech32String(b) => b.clone(),
        })
    }

    fn rf(&self, e: &RefE) -> (Vec<u8>, u64) {
        match e {
            RefE::Lit(t, i) => (t.clone(), *i),
            RefE::Param(_) => {
                let r = ref_param();
                (r.txid, r.index as u64)
            }
        }
    }
}

pub fn denote(sc: &Scenario) -> Denotation {
    denote_with(sc, utxos_for(sc))
}

/// denotation for an explicit UTxO assignment (used when the resolver chose the inputs)
pub fn denote_with(sc: &Scenario, utxos: BTreeMap<String, Vec<Utxo>>) -> Denotation {
    let ev = Ev { sc, utxos };
    match denote_inner(&ev) {
        Ok(e) => Denotation::Tx(e),
        Err(d) => d,
    }
}

fn denote_inner(ev: &Ev) -> R<Expected> {
    let p = &ev.sc.prog;
    let mut x = Expected { fee: ev.sc.fee, network: ev.sc.network, ..Default::default() };
    for (name, us) in ev.utxos.iter() {
        for u in us {
            if name == "collateral" {
                x.collateral.insert((u.r#ref.txid.clone(), u.r#ref.index as u64));
            } else {
                x.inputs.insert((u.r#ref.txid.clone(), u.r#ref.index as u64));
            }
        }
    }
    // regular outputs in source order, then one output per `cardano::publish` block
    let regular = p.outputs.iter().map(|o| (&o.to, &o.amount, &o.datum, o.optional, None));
    let published = p.publishes.iter().map(|b| (&b.to, &b.amount, &b.datum, false, Some((b.version, b.script.clone()))));
    for (to, amount, datum, optional, script_ref) in regular.chain(published) {
        let v = ev.asset(amount)?;
        let mut lovelace = 0i128;
        let mut assets = Assets::new();
        for ((pol, name), n) in v {
            if pol.is_empty() && name.is_empty() {
                lovelace = n;
            } else if n < 0 {
                return Err(Denotation::MustFail(format!("negative native asset amount {n} in an output")));
            } else if n > 0 {
                if n > u64::MAX as i128 {
                    return Err(Denotation::MustFail("asset amount beyond 64 bits".into()));
                }
                assets.insert((pol, name), n);
            }
        }
        if lovelace < 0 {
            return Err(Denotation::MustFail(format!("negative lovelace {lovelace} in an output")));
        }
        if lovelace > u64::MAX as i128 {
            return Err(Denotation::MustFail("lovelace beyond 64 bits".into()));
        }
        if optional && lovelace == 0 && assets.is_empty() {
            continue;
        }
        let datum = match datum {
            Some(d) => Some(ev.data(d)?),
            None => None,
        };
        x.outputs.push(ExpOutput { address: ev.addr(to)?, lovelace, assets, datum, script_ref });
    }
    for (list, sign) in [(&p.mints, 1i128), (&p.burns, -1i128)] {
        for m in list.iter() {
            for ((pol, name), n) in ev.asset(&m.amount)? {
                if pol.is_empty() {
                    return undef("minting lovelace");
                }
                if n == 0 {
                    return Err(Denotation::MustFail("zero mint / burn amount".into()));
                }
                if n < 0 {
                    return undef("negative amount in a mint / burn block");
                }
                if n > i64::MAX as i128 {
                    return Err(Denotation::MustFail(format!("mint / burn amount {n} beyond the field's 64 signed bits")));
                }
                *x.mint.entry((pol, name)).or_insert(0) += sign * n;
            }
        }
    }
    x.mint.retain(|_, v| *v != 0);
    if let Some(v) = x.mint.values().find(|v| **v > i64::MAX as i128 || **v < i64::MIN as i128) {
        return Err(Denotation::MustFail(format!("total minted amount {v} of one asset class beyond the field's 64 signed bits")));
    }
    for (field, src) in [(&mut x.start, &p.since), (&mut x.ttl, &p.until)] {
        if let Some(e) = src {
            let v = ev.int(e)?;
            if v < 0 || v > u64::MAX as i128 {
                return Err(Denotation::MustFail(format!("slot {v} outside [0, 2^64)")));
            }
            *field = Some(v);
        }
    }
    for s in &p.signers {
        x.signers.insert(match s {
            SignerE::Party(n) => party_address(n, ev.sc.network)[1..29].to_vec(),
            SignerE::Hash(h) => h.clone(),
        });
    }
    for i in &p.inputs {
        if let Some(r) = &i.redeemer {
            let d = ev.data(r)?;
            let n = ev.utxos.get(&i.name.to_lowercase()).map(|u| u.len()).unwrap_or(0);
            for _ in 0..n {
                x.redeemers.push((0, d.to_string()));
            }
        }
    }
    if !p.withdrawal_no_redeemer {
        for _ in &p.withdrawals {
            x.redeemers.push((3, PData::Constr(0, vec![]).to_string()));
        }
    }
    x.redeemers.sort();
    x.mint_redeemers_written = p.mints.iter().chain(p.burns.iter()).any(|m| !m.no_redeemer);
    for (_, r) in &p.references {
        if ev.rf(r).1 > u32::MAX as u64 {
            return Err(Denotation::MustFail("reference output index beyond 32 bits".into()));
        }
        x.reference_inputs.insert(ev.rf(r));
    }
    for (from, amount) in &p.withdrawals {
        // the reward account of an address is the stake address of its delegation part
        let a = ev.addr(from)?;
        if a.len() != 57 {
            return undef("withdrawal from an address without a delegation part");
        }
        let mut account = vec![0xe0 | (a[0] & 0x0f)];
        account.extend_from_slice(&a[29..57]);
        let n = ev.int(amount)?;
        if n < 0 || n > u64::MAX as i128 {
            return Err(Denotation::MustFail(format!("withdrawal amount {n} outside [0, 2^64)")));
        }
        if x.withdrawals.insert(account, n).is_some() {
            return undef("two withdrawals from one reward account");
        }
    }
    if let Some(coin) = &p.donation {
        let n = ev.int(coin)?;
        if n <= 0 || n > u64::MAX as i128 {
            return Err(Denotation::MustFail(format!("donation {n} outside [1, 2^64)")));
        }
        x.donation = Some(n);
    }
    for (k, v) in &p.metadata {
        let key = ev.int(k)?;
        if key < 0 || key > u64::MAX as i128 {
            return Err(Denotation::MustFail("metadata label outside u64".into()));
        }
        let val = match v {
            MetaE::Int(e) => {
                let n = ev.int(e)?;
                if n < -(1i128 << 64) || n >= (1i128 << 64) {
                    return Err(Denotation::MustFail("metadata integer outside the field's range".into()));
                }
                MetaVal::Int(n)
            }
            MetaE::Str(s) => MetaVal::Text(s.clone()),
            MetaE::Bytes(b) => MetaVal::Bytes(ev.bytes(b)?),
        };
        x.metadata.insert(key as u64, val);
    }
    Ok(x)
}
