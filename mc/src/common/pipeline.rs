//! The pipeline under test, assembled from public API only, plus fixed addresses / parameters.

use std::collections::{BTreeMap, HashMap};
use tx3_cardano::{ChainPoint, Compiler, Config, PParams};
use tx3_tir::model::v1beta0 as tir;

pub const CURSOR_SLOT: u64 = 5_000;
pub const CURSOR_TIME_MS: u128 = 1_700_000_000_000;

#[derive(Debug, Clone, PartialEq, Eq, serde::Serialize, serde::Deserialize)]
pub struct PP {
    /// 0 = testnet, 1 = mainnet
    pub network: u8,
    pub coefficient: u64,
    pub constant: u64,
    pub coins_per_utxo_byte: u64,
    /// None = compiler default margin
    pub extra_fees: Option<u64>,
    /// bitmask of cost models present (bit v = plutus version key v)
    pub cost_models: u8,
    /// which of several cost models the configuration carries for every language (0 = the usual one)
    pub cost_variant: u8,
}

impl Default for PP {
    fn default() -> Self {
        PP {
            network: 0,
            coefficient: 44,
            constant: 155_381,
            coins_per_utxo_byte: 4310,
            extra_fees: Some(0),
            cost_models: 0b111,
            cost_variant: 0,
        }
    }
}

pub fn cost_model(version: u8) -> Vec<i64> {
    cost_model_variant(version, 0)
}

/// two configurations of one process may carry different cost models for the same language
pub fn cost_model_variant(version: u8, variant: u8) -> Vec<i64> {
    let n = match version {
        0 => 166,
        1 => 175,
        _ => 251,
    };
    (0..n).map(|i| (i as i64) * 7 + version as i64 + 1000 * variant as i64).collect()
}

pub fn compiler(pp: &PP) -> Compiler {
    let mut cost_models = HashMap::new();
    for v in 0..3u8 {
        if pp.cost_models & (1 << v) != 0 {
            cost_models.insert(v, cost_model_variant(v, pp.cost_variant));
        }
    }
    let pparams = PParams {
        network: if pp.network == 0 {
            tx3_cardano::Network::Testnet
        } else {
            tx3_cardano::Network::Mainnet
        },
        min_fee_coefficient: pp.coefficient,
        min_fee_constant: pp.constant,
        coins_per_utxo_byte: pp.coins_per_utxo_byte,
        cost_models,
    };
    Compiler::new(
        pparams,
        Config {
            extra_fees: pp.extra_fees,
        },
        ChainPoint {
            slot: CURSOR_SLOT,
            hash: vec![0xcc; 32],
            timestamp: CURSOR_TIME_MS,
        },
    )
}

/// key-hash style 28 byte credential
pub fn cred(tag: u8) -> Vec<u8> {
    (0..28).map(|i| tag.wrapping_mul(17).wrapping_add(i)).collect()
}

/// base address (payment key + stake key) on the given network
pub fn base_address(tag: u8, network: u8) -> Vec<u8> {
    let mut v = vec![network & 1];
    v.extend(cred(tag));
    v.extend(cred(tag.wrapping_add(100)));
    v
}

/// enterprise key address
pub fn enterprise_address(tag: u8, network: u8) -> Vec<u8> {
    let mut v = vec![0x60 | (network & 1)];
    v.extend(cred(tag));
    v
}

/// enterprise script address of a 28-byte script hash
pub fn script_address(hash: &[u8], network: u8) -> Vec<u8> {
    let mut v = vec![0x70 | (network & 1)];
    v.extend_from_slice(hash);
    v
}

/// stake (reward) address with a key credential
pub fn stake_address(tag: u8, network: u8) -> Vec<u8> {
    let mut v = vec![0xe0 | (network & 1)];
    v.extend(cred(tag));
    v
}

#[derive(Debug)]
pub enum FrontError {
    Parse(String),
    Analyze(Vec<String>),
    Lower(String, String),
}

impl std::fmt::Display for FrontError {
    fn fmt(&self, f: &mut std::fmt::Formatter<'_>) -> std::fmt::Result {
        match self {
            FrontError::Parse(m) => write!(f, "parse error: {m}"),
            FrontError::Analyze(m) => write!(f, "analysis errors: {m:?}"),
            FrontError::Lower(tx, m) => write!(f, "lowering of {tx} failed: {m}"),
        }
    }
}

/// parse -> analyze -> lower every tx
pub fn lower_source(src: &str) -> Result<BTreeMap<String, tir::Tx>, FrontError> {
    let mut program = tx3_lang::parsing::parse_string(src).map_err(|e| FrontError::Parse(e.message.clone()))?;
    let report = tx3_lang::analyzing::analyze(&mut program);
    if !report.errors.is_empty() {
        return Err(FrontError::Analyze(report.errors.iter().map(|e| e.to_string()).collect()));
    }
    let mut out = BTreeMap::new();
    for tx in program.txs.iter() {
        let t = tx3_lang::lowering::lower(&program, &tx.name.value)
            .map_err(|e| FrontError::Lower(tx.name.value.clone(), e.to_string()))?;
        out.insert(tx.name.value.clone(), t);
    }
    Ok(out)
}

// ---------------------------------------------------------------------------------------------
// staged application with explicit inputs and fee (the order the repository's own tests use)

use tx3_tir::compile::{CompiledTx, Compiler as _};
use tx3_tir::encoding::AnyTir;
use tx3_tir::model::core::Utxo;
use tx3_tir::reduce::{Apply as _, ArgMap};
use tx3_tir::Node as _;

#[derive(Debug, Clone)]
pub struct StageError {
    pub stage: &'static str,
    pub message: String,
}

pub struct RunCfg {
    pub pp: PP,
    pub fee: u64,
    pub args: ArgMap,
    pub inputs: BTreeMap<String, Vec<Utxo>>,
}

/// apply_args -> apply_fees -> reduce -> compiler ops -> apply_inputs -> reduce
pub fn apply_all(tx: tir::Tx, cfg: &RunCfg, compiler: &mut Compiler) -> Result<tir::Tx, StageError> {
    let e = |stage: &'static str| move |err: tx3_tir::reduce::Error| StageError { stage, message: err.to_string() };
    let tx = tx.apply_args(&cfg.args).map_err(e("apply_args"))?;
    let tx = tx.apply_fees(cfg.fee).map_err(e("apply_fees"))?;
    let tx = tx.reduce().map_err(e("reduce-1"))?;
    let tx = tx.apply(compiler).map_err(e("compiler-ops"))?;
    let inputs: BTreeMap<String, std::collections::HashSet<Utxo>> = cfg
        .inputs
        .iter()
        .map(|(k, v)| (k.clone(), v.iter().cloned().collect()))
        .collect();
    let tx = tx.apply_inputs(&inputs).map_err(e("apply_inputs"))?;
    let tx = tx.reduce().map_err(e("reduce-2"))?;
    Ok(tx)
}

pub fn run_pipeline(tx: tir::Tx, cfg: &RunCfg) -> Result<(CompiledTx, tir::Tx), StageError> {
    let mut compiler = compiler(&cfg.pp);
    let reduced = apply_all(tx, cfg, &mut compiler)?;
    if !reduced.is_constant() {
        return Err(StageError {
            stage: "not-constant",
            message: format!("template still has unresolved parts: {:?}", super::canon::unresolved(&reduced)),
        });
    }
    let compiled = compiler
        .compile(&AnyTir::V1Beta0(reduced.clone()))
        .map_err(|e| StageError { stage: "compile", message: e.to_string() })?;
    Ok((compiled, reduced))
}
