//! A small CBOR reader written from RFC 8949 (independent of pallas / minicbor / ciborium): decodes one
//! item into a tree that keeps byte ranges, definite/indefinite flags and map entry order, so that
//! structure-level facts (duplicate keys, empty containers, body byte range) can be checked.

#[derive(Debug, Clone, PartialEq)]
pub enum Cbor {
    UInt(u64),
    /// -1 - n
    NInt(u64),
    Bytes { data: Vec<u8>, indefinite: bool, chunks: Vec<usize> },
    Text(String),
    Array { items: Vec<Node>, indefinite: bool },
    Map { entries: Vec<(Node, Node)>, indefinite: bool },
    Tag(u64, Box<Node>),
    Simple(u8),
    Float(f64),
}

#[derive(Debug, Clone, PartialEq)]
pub struct Node {
    pub v: Cbor,
    pub start: usize,
    pub end: usize,
}

#[derive(Debug)]
pub struct CborError(pub String);

struct Reader<'a> {
    b: &'a [u8],
    pos: usize,
    depth: usize,
}

impl<'a> Reader<'a> {
    fn err<T>(&self, m: &str) -> Result<T, CborError> {
        Err(CborError(format!("{m} at offset {}", self.pos)))
    }

    fn byte(&mut self) -> Result<u8, CborError> {
        let Some(x) = self.b.get(self.pos) else { return self.err("unexpected end") };
        self.pos += 1;
        Ok(*x)
    }

    fn take(&mut self, n: usize) -> Result<&'a [u8], CborError> {
        if self.b.len() - self.pos < n {
            return self.err("unexpected end");
        }
        let s = &self.b[self.pos..self.pos + n];
        self.pos += n;
        Ok(s)
    }

    fn arg(&mut self, info: u8) -> Result<Option<u64>, CborError> {
        Ok(Some(match info {
            0..=23 => info as u64,
            24 => self.byte()? as u64,
            25 => u16::from_be_bytes(self.take(2)?.try_into().unwrap()) as u64,
            26 => u32::from_be_bytes(self.take(4)?.try_into().unwrap()) as u64,
            27 => u64::from_be_bytes(self.take(8)?.try_into().unwrap()),
            31 => return Ok(None),
            _ => return self.err("reserved additional info"),
        }))
    }

    fn item(&mut self) -> Result<Node, CborError> {
        self.depth += 1;
        if self.depth > 512 {
            return self.err("nesting too deep");
        }
        let start = self.pos;
        let ib = self.byte()?;
        let major = ib >> 5;
        let info = ib & 0x1f;
        let v = match major {
            0 => match self.arg(info)? {
                Some(n) => Cbor::UInt(n),
                None => return self.err("indefinite uint"),
            },
            1 => match self.arg(info)? {
                Some(n) => Cbor::NInt(n),
                None => return self.err("indefinite nint"),
            },
            2 | 3 => {
                let (data, indefinite, chunks) = match self.arg(info)? {
                    Some(n) => (self.take(n as usize)?.to_vec(), false, vec![n as usize]),
                    None => {
                        let mut data = vec![];
                        let mut chunks = vec![];
                        loop {
                            if self.b.get(self.pos) == Some(&0xff) {
                                self.pos += 1;
                                break;
                            }
                            let cb = self.byte()?;
                            if cb >> 5 != major {
                                return self.err("bad chunk type");
                            }
                            let Some(n) = self.arg(cb & 0x1f)? else { return self.err("nested indefinite chunk") };
                            data.extend_from_slice(self.take(n as usize)?);
                            chunks.push(n as usize);
                        }
                        (data, true, chunks)
                    }
                };
                if major == 2 {
                    Cbor::Bytes { data, indefinite, chunks }
                } else {
                    match String::from_utf8(data) {
                        Ok(s) => Cbor::Text(s),
                        Err(_) => return self.err("invalid utf-8 in text"),
                    }
                }
            }
            4 => {
                let mut items = vec![];
                match self.arg(info)? {
                    Some(n) => {
                        for _ in 0..n {
                            items.push(self.item()?);
                        }
                        Cbor::Array { items, indefinite: false }
                    }
                    None => {
                        while self.b.get(self.pos) != Some(&0xff) {
                            items.push(self.item()?);
                        }
                        self.pos += 1;
                        Cbor::Array { items, indefinite: true }
                    }
                }
            }
            5 => {
                let mut entries = vec![];
                match self.arg(info)? {
                    Some(n) => {
                        for _ in 0..n {
                            let k = self.item()?;
                            let v = self.item()?;
                            entries.push((k, v));
                        }
                        Cbor::Map { entries, indefinite: false }
                    }
                    None => {
                        while self.b.get(self.pos) != Some(&0xff) {
                            let k = self.item()?;
                            let v = self.item()?;
                            entries.push((k, v));
                        }
                        self.pos += 1;
                        Cbor::Map { entries, indefinite: true }
                    }
                }
            }
            6 => {
                let Some(t) = self.arg(info)? else { return self.err("indefinite tag") };
                Cbor::Tag(t, Box::new(self.item()?))
            }
            _ => match info {
                0..=23 => Cbor::Simple(info),
                24 => Cbor::Simple(self.byte()?),
                25 => {
                    let h = u16::from_be_bytes(self.take(2)?.try_into().unwrap());
                    Cbor::Float(half_to_f64(h))
                }
                26 => Cbor::Float(f32::from_be_bytes(self.take(4)?.try_into().unwrap()) as f64),
                27 => Cbor::Float(f64::from_be_bytes(self.take(8)?.try_into().unwrap())),
                _ => return self.err("bad simple value / stray break"),
            },
        };
        self.depth -= 1;
        Ok(Node { v, start, end: self.pos })
    }
}

fn half_to_f64(h: u16) -> f64 {
    let exp = (h >> 10) & 0x1f;
    let mant = (h & 0x3ff) as f64;
    let val = if exp == 0 {
        mant * 2f64.powi(-24)
    } else if exp != 31 {
        (mant + 1024.0) * 2f64.powi(exp as i32 - 25)
    } else if mant == 0.0 {
        f64::INFINITY
    } else {
        f64::NAN
    };
    if h & 0x8000 != 0 {
        -val
    } else {
        val
    }
}

/// Decodes exactly one item spanning the whole input.
pub fn decode(bytes: &[u8]) -> Result<Node, CborError> {
    let mut r = Reader { b: bytes, pos: 0, depth: 0 };
    let n = r.item()?;
    if r.pos != bytes.len() {
        return Err(CborError(format!("trailing bytes after item ({} of {})", r.pos, bytes.len())));
    }
    Ok(n)
}

impl Node {
    pub fn as_u64(&self) -> Option<u64> {
        match &self.v {
            Cbor::UInt(n) => Some(*n),
            _ => None,
        }
    }

    /// integer value incl. negative and bignum tags 2 / 3
    pub fn as_int(&self) -> Option<BigInt> {
        match &self.v {
            Cbor::UInt(n) => Some(BigInt::from_u64(*n, false)),
            Cbor::NInt(n) => Some(BigInt::from_nint(*n)),
            Cbor::Tag(2, inner) => inner.as_bytes().map(|b| BigInt::from_be(b, false)),
            Cbor::Tag(3, inner) => inner.as_bytes().map(|b| BigInt::from_be(b, true)),
            _ => None,
        }
    }

    pub fn as_bytes(&self) -> Option<&[u8]> {
        match &self.v {
            Cbor::Bytes { data, .. } => Some(data),
            _ => None,
        }
    }

    pub fn as_text(&self) -> Option<&str> {
        match &self.v {
            Cbor::Text(s) => Some(s),
            _ => None,
        }
    }

    pub fn as_array(&self) -> Option<&[Node]> {
        match &self.v {
            Cbor::Array { items, .. } => Some(items),
            _ => None,
        }
    }

    /// array, or tag 258 (set) around an array
    pub fn as_set(&self) -> Option<&[Node]> {
        match &self.v {
            Cbor::Array { items, .. } => Some(items),
            Cbor::Tag(258, inner) => inner.as_array(),
            _ => None,
        }
    }

    pub fn as_map(&self) -> Option<&[(Node, Node)]> {
        match &self.v {
            Cbor::Map { entries, .. } => Some(entries),
            _ => None,
        }
    }

    pub fn map_get_u(&self, key: u64) -> Option<&Node> {
        self.as_map()?.iter().find(|(k, _)| k.as_u64() == Some(key)).map(|(_, v)| v)
    }

    pub fn is_null(&self) -> bool {
        matches!(self.v, Cbor::Simple(22))
    }
}

/// Sign-magnitude big integer, enough for comparing with i128 and printing.
#[derive(Debug, Clone, PartialEq, Eq, PartialOrd, Ord)]
pub struct BigInt {
    pub negative: bool,
    /// big-endian magnitude without leading zeros; for negatives the value is -(mag)
    pub mag: Vec<u8>,
}

impl BigInt {
    pub fn from_u64(n: u64, negative: bool) -> Self {
        let mut mag = n.to_be_bytes().to_vec();
        while mag.first() == Some(&0) {
            mag.remove(0);
        }
        BigInt { negative: negative && !mag.is_empty(), mag }
    }

    /// CBOR major type 1 argument n denotes -1 - n
    pub fn from_nint(n: u64) -> Self {
        let v = n as u128 + 1;
        let mut mag = v.to_be_bytes().to_vec();
        while mag.first() == Some(&0) {
            mag.remove(0);
        }
        BigInt { negative: true, mag }
    }

    /// bignum tags: tag 2 = magnitude, tag 3 = -1 - magnitude
    pub fn from_be(b: &[u8], tag3: bool) -> Self {
        let mut mag = b.to_vec();
        while mag.first() == Some(&0) {
            mag.remove(0);
        }
        if !tag3 {
            return BigInt { negative: false, mag };
        }
        // add one to the magnitude
        let mut carry = 1u16;
        for x in mag.iter_mut().rev() {
            let s = *x as u16 + carry;
            *x = s as u8;
            carry = s >> 8;
        }
        if carry > 0 {
            mag.insert(0, carry as u8);
        }
        BigInt { negative: true, mag }
    }

    pub fn from_i128(v: i128) -> Self {
        let negative = v < 0;
        let m = v.unsigned_abs();
        let mut mag = m.to_be_bytes().to_vec();
        while mag.first() == Some(&0) {
            mag.remove(0);
        }
        BigInt { negative, mag }
    }

    pub fn to_i128(&self) -> Option<i128> {
        if self.mag.len() > 16 {
            return None;
        }
        let mut buf = [0u8; 16];
        buf[16 - self.mag.len()..].copy_from_slice(&self.mag);
        let m = u128::from_be_bytes(buf);
        if self.negative {
            if m > (i128::MAX as u128) + 1 {
                None
            } else {
                Some((m as i128).wrapping_neg())
            }
        } else if m > i128::MAX as u128 {
            None
        } else {
            Some(m as i128)
        }
    }
}

impl std::fmt::Display for BigInt {
    fn fmt(&self, f: &mut std::fmt::Formatter<'_>) -> std::fmt::Result {
        match self.to_i128() {
            Some(v) => write!(f, "{v}"),
            None => write!(f, "{}0x{}", if self.negative { "-" } else { "" }, hex::encode(&self.mag)),
        }
    }
}

#[cfg(test)]
mod tests {
    use super::*;

    #[test]
    fn basic() {
        let n = decode(&[0x83, 0x01, 0x20, 0x42, 0xaa, 0xbb]).unwrap();
        let a = n.as_array().unwrap();
        assert_eq!(a[0].as_u64(), Some(1));
        assert_eq!(a[1].as_int().unwrap().to_i128(), Some(-1));
        assert_eq!(a[2].as_bytes(), Some(&[0xaa, 0xbb][..]));
        assert!(decode(&[0x83, 0x01]).is_err());
        let big = decode(&[0xc3, 0x49, 1, 0, 0, 0, 0, 0, 0, 0, 0]).unwrap();
        assert_eq!(big.as_int().unwrap().to_i128(), Some(-(1i128 << 64) - 1));
    }
}
