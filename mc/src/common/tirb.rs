//! Builders for hand-made TIR values.

use tx3_tir::model::assets::CanonicalAssets;
use tx3_tir::model::core::{Utxo, UtxoRef};
use tx3_tir::model::v1beta0 as tir;

pub fn empty_tx() -> tir::Tx {
    tir::Tx {
        fees: tir::Expression::EvalParam(Box::new(tir::Param::ExpectFees)),
        references: vec![],
        inputs: vec![],
        outputs: vec![],
        validity: None,
        mints: vec![],
        burns: vec![],
        adhoc: vec![],
        collateral: vec![],
        signers: None,
        metadata: vec![],
    }
}

pub fn num(n: i128) -> tir::Expression {
    tir::Expression::Number(n)
}

pub fn bytes(b: &[u8]) -> tir::Expression {
    tir::Expression::Bytes(b.to_vec())
}

pub fn param(name: &str, ty: tx3_tir::model::core::Type) -> tir::Expression {
    tir::Expression::EvalParam(Box::new(tir::Param::ExpectValue(name.to_string(), ty)))
}

pub fn fees() -> tir::Expression {
    tir::Expression::EvalParam(Box::new(tir::Param::ExpectFees))
}

pub fn lovelace(n: i128) -> tir::AssetExpr {
    tir::AssetExpr {
        policy: tir::Expression::None,
        asset_name: tir::Expression::None,
        amount: num(n),
    }
}

pub fn token(policy: &[u8], name: &[u8], n: i128) -> tir::AssetExpr {
    tir::AssetExpr {
        policy: bytes(policy),
        asset_name: bytes(name),
        amount: num(n),
    }
}

pub fn assets(list: Vec<tir::AssetExpr>) -> tir::Expression {
    tir::Expression::Assets(list)
}

pub fn query_input(name: &str, q: tir::InputQuery) -> tir::Expression {
    tir::Expression::EvalParam(Box::new(tir::Param::ExpectInput(name.to_string(), q)))
}

pub fn input(name: &str, q: tir::InputQuery) -> tir::Input {
    tir::Input {
        name: name.to_string(),
        utxos: query_input(name, q),
        redeemer: tir::Expression::None,
    }
}

pub fn utxo_ref(tag: u8, index: u32) -> UtxoRef {
    UtxoRef {
        txid: vec![tag; 32],
        index,
    }
}

pub fn utxo(r: UtxoRef, address: &[u8], assets: CanonicalAssets) -> Utxo {
    Utxo {
        r#ref: r,
        address: address.to_vec(),
        assets,
        datum: None,
        script: None,
    }
}

pub fn builtin(op: tir::BuiltInOp) -> tir::Expression {
    tir::Expression::EvalBuiltIn(Box::new(op))
}

pub fn coerce(op: tir::Coerce) -> tir::Expression {
    tir::Expression::EvalCoerce(Box::new(op))
}

pub fn compiler_op(op: tir::CompilerOp) -> tir::Expression {
    tir::Expression::EvalCompiler(Box::new(op))
}
