//! Small shared helpers: boundary alphabets, fixed byte strings.

/// Boundary alphabet B of the design (§3, C02): every integer at which a representation changes width
/// or sign.
pub fn boundary_ints() -> Vec<i128> {
    let mut v: Vec<i128> = vec![0, 1, -1, 2, -2, 23, 24, 255, 256];
    for k in [31u32, 63, 64] {
        let p = 1i128 << k;
        for x in [p - 1, p, p + 1] {
            v.push(x);
            v.push(-x);
        }
    }
    v.extend([i128::MIN, i128::MIN + 1, i128::MAX - 1, i128::MAX]);
    v.sort();
    v.dedup();
    v
}

pub fn bytes_of_len(len: usize, seed: u8) -> Vec<u8> {
    (0..len).map(|i| seed.wrapping_add(i as u8).wrapping_mul(31).wrapping_add(7)).collect()
}

pub mod canon;
pub mod cbor;
pub mod plutus;
pub mod pipeline;
pub mod sem;
pub mod shape;
pub mod store;
pub mod tirb;
pub mod txdecode;

/// serde adapter: i128 as decimal string (serde_json cannot carry integers beyond 64 bits)
pub mod i128_str {
    use serde::{Deserialize, Deserializer, Serializer};
    pub fn serialize<S: Serializer>(v: &i128, s: S) -> Result<S::Ok, S::Error> {
        s.serialize_str(&v.to_string())
    }
    pub fn deserialize<'de, D: Deserializer<'de>>(d: D) -> Result<i128, D::Error> {
        let s = String::deserialize(d)?;
        s.parse().map_err(serde::de::Error::custom)
    }
}
