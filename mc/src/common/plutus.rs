//! Plutus Data reader written from the plutus-core CDDL, on top of the independent CBOR tree.
//!
//!   constr  = #6.121..127([* data]) | #6.1280..1400([* data]) | #6.102([uint, [* data]])
//!   map     = {* data => data}      list = [* data]
//!   big_int = int | #6.2(bounded_bytes) | #6.3(bounded_bytes)
//!   bounded_bytes = bytes .size (0..64)   (longer strings: indefinite, chunks of at most 64 bytes)

use super::cbor::{BigInt, Cbor, Node};

#[derive(Debug, Clone, PartialEq, Eq)]
pub enum PData {
    Constr(u64, Vec<PData>),
    Map(Vec<(PData, PData)>),
    List(Vec<PData>),
    Int(BigInt),
    Bytes(Vec<u8>),
}

fn bounded_bytes(n: &Node) -> Result<Vec<u8>, String> {
    match &n.v {
        Cbor::Bytes { data, indefinite, chunks } => {
            if !*indefinite && data.len() > 64 {
                return Err(format!("definite byte string of {} bytes (limit 64)", data.len()));
            }
            if chunks.iter().any(|c| *c > 64) {
                return Err("chunk longer than 64 bytes".to_string());
            }
            Ok(data.clone())
        }
        _ => Err("expected bytes".to_string()),
    }
}

pub fn read(n: &Node) -> Result<PData, String> {
    match &n.v {
        Cbor::UInt(_) | Cbor::NInt(_) => Ok(PData::Int(n.as_int().unwrap())),
        Cbor::Tag(2, inner) => Ok(PData::Int(BigInt::from_be(&bounded_bytes(inner)?, false))),
        Cbor::Tag(3, inner) => Ok(PData::Int(BigInt::from_be(&bounded_bytes(inner)?, true))),
        Cbor::Bytes { .. } => Ok(PData::Bytes(bounded_bytes(n)?)),
        Cbor::Array { items, .. } => Ok(PData::List(items.iter().map(read).collect::<Result<_, _>>()?)),
        Cbor::Map { entries, .. } => Ok(PData::Map(
            entries
                .iter()
                .map(|(k, v)| Ok((read(k)?, read(v)?)))
                .collect::<Result<_, String>>()?,
        )),
        Cbor::Tag(t, inner) => {
            let fields_of = |x: &Node| -> Result<Vec<PData>, String> {
                match &x.v {
                    Cbor::Array { items, .. } => items.iter().map(read).collect(),
                    _ => Err("constructor fields must be an array".to_string()),
                }
            };
            match *t {
                121..=127 => Ok(PData::Constr(*t - 121, fields_of(inner)?)),
                1280..=1400 => Ok(PData::Constr(*t - 1280 + 7, fields_of(inner)?)),
                102 => {
                    let Some(items) = inner.as_array() else { return Err("tag 102 needs [idx, fields]".into()) };
                    if items.len() != 2 {
                        return Err("tag 102 needs [idx, fields]".into());
                    }
                    let Some(idx) = items[0].as_u64() else { return Err("tag 102 index must be uint".into()) };
                    Ok(PData::Constr(idx, fields_of(&items[1])?))
                }
                other => Err(format!("tag {other} is not Plutus Data")),
            }
        }
        Cbor::Text(_) => Err("text string is not Plutus Data".to_string()),
        Cbor::Simple(_) | Cbor::Float(_) => Err("simple / float is not Plutus Data".to_string()),
    }
}

pub fn read_bytes(b: &[u8]) -> Result<PData, String> {
    let n = super::cbor::decode(b).map_err(|e| e.0)?;
    read(&n)
}

impl std::fmt::Display for PData {
    fn fmt(&self, f: &mut std::fmt::Formatter<'_>) -> std::fmt::Result {
        match self {
            PData::Constr(i, fs) => {
                write!(f, "C{i}(")?;
                for (k, x) in fs.iter().enumerate() {
                    if k > 0 {
                        write!(f, ",")?;
                    }
                    write!(f, "{x}")?;
                }
                write!(f, ")")
            }
            PData::Map(es) => {
                write!(f, "{{")?;
                for (k, (a, b)) in es.iter().enumerate() {
                    if k > 0 {
                        write!(f, ",")?;
                    }
                    write!(f, "{a}:{b}")?;
                }
                write!(f, "}}")
            }
            PData::List(xs) => {
                write!(f, "[")?;
                for (k, x) in xs.iter().enumerate() {
                    if k > 0 {
                        write!(f, ",")?;
                    }
                    write!(f, "{x}")?;
                }
                write!(f, "]")
            }
            PData::Int(i) => write!(f, "{i}"),
            PData::Bytes(b) => write!(f, "h'{}'", hex::encode(b)),
        }
    }
}
