//! Canonical JSON form of TIR values and a generic structural walk that knows nothing of `Composite`.

use serde_json::{Map, Value};

fn sort_key(v: &Value) -> String {
    v.to_string()
}

/// Object keys sorted, `UtxoSet` payloads sorted by ref, asset maps sorted; nothing dropped.
pub fn canon(v: &Value) -> Value {
    canon_with(v, false)
}

/// `sum_semantics`: additionally sort the entries of asset lists (they denote a sum; the reducer rebuilds
/// them from a hash map, so their order differs from run to run)
pub fn canon_with(v: &Value, sum_semantics: bool) -> Value {
    match v {
        Value::Object(o) => {
            let mut keys: Vec<&String> = o.keys().collect();
            keys.sort();
            let mut out = Map::new();
            for k in keys {
                let mut c = canon_with(&o[k], sum_semantics);
                // asset lists denote a sum: the order of their entries carries no meaning (the reducer
                // rebuilds them from a hash map)
                if k == "UtxoSet" || (sum_semantics && k == "Assets") {
                    if let Value::Array(items) = &mut c {
                        items.sort_by_key(sort_key);
                    }
                }
                out.insert(k.clone(), c);
            }
            Value::Object(out)
        }
        Value::Array(a) => Value::Array(a.iter().map(|x| canon_with(x, sum_semantics)).collect()),
        x => x.clone(),
    }
}

/// Serialises through ciborium's value model (serde_json refuses the non-string map keys of
/// `CanonicalAssets`) and converts to JSON: maps whose keys are all text become objects, other maps become
/// `{"$map": [[k, v], ...]}` sorted by key, tags become `{"$tag": n, "v": ...}`, bytes become hex text.
pub fn to_json<T: serde::Serialize>(t: &T) -> Value {
    let v = ciborium::Value::serialized(t).expect("value serialises");
    conv(&v)
}

fn conv(v: &ciborium::Value) -> Value {
    use ciborium::Value as C;
    match v {
        C::Integer(i) => {
            let n: i128 = (*i).into();
            if let Ok(x) = i64::try_from(n) {
                Value::from(x)
            } else if let Ok(x) = u64::try_from(n) {
                Value::from(x)
            } else {
                Value::String(format!("int:{n}"))
            }
        }
        C::Bytes(b) => Value::String(format!("h:{}", hex::encode(b))),
        C::Float(f) => Value::String(format!("f:{f}")),
        C::Text(s) => Value::String(s.clone()),
        C::Bool(b) => Value::Bool(*b),
        C::Null => Value::Null,
        C::Tag(t, inner) => {
            // bignums (tags 2/3) are what ciborium uses for i128 beyond 64 bits
            if let (2 | 3, C::Bytes(b)) = (*t, inner.as_ref()) {
                let mut mag: u128 = 0;
                for x in b {
                    mag = (mag << 8) | *x as u128;
                }
                let n: i128 = if *t == 2 { mag as i128 } else { -1 - (mag as i128) };
                return Value::String(format!("int:{n}"));
            }
            let mut o = Map::new();
            o.insert("$tag".into(), Value::from(*t));
            o.insert("v".into(), conv(inner));
            Value::Object(o)
        }
        C::Array(a) => Value::Array(a.iter().map(conv).collect()),
        C::Map(m) => {
            if m.iter().all(|(k, _)| matches!(k, C::Text(_))) {
                let mut o = Map::new();
                for (k, x) in m {
                    if let C::Text(k) = k {
                        o.insert(k.clone(), conv(x));
                    }
                }
                Value::Object(o)
            } else {
                let mut items: Vec<Value> = m.iter().map(|(k, x)| Value::Array(vec![conv(k), conv(x)])).collect();
                items.sort_by_key(sort_key);
                let mut o = Map::new();
                o.insert("$map".into(), Value::Array(items));
                Value::Object(o)
            }
        }
        _ => Value::Null,
    }
}

pub fn canon_tir<T: serde::Serialize>(t: &T) -> Value {
    canon(&to_json(t))
}

/// canonical form for comparing *meanings* of reduced templates (asset lists as sums)
pub fn canon_tir_sums<T: serde::Serialize>(t: &T) -> Value {
    canon_with(&to_json(t), true)
}

#[derive(Debug, Default, Clone, PartialEq)]
pub struct Unresolved {
    pub values: Vec<String>,
    pub inputs: Vec<String>,
    pub fees: usize,
    pub compiler_ops: usize,
}

impl Unresolved {
    pub fn is_empty(&self) -> bool {
        self.values.is_empty() && self.inputs.is_empty() && self.fees == 0
    }
}

/// Finds every `ExpectValue` / `ExpectInput` / `ExpectFees` / `EvalCompiler` node of a serialised TIR.
pub fn walk(v: &Value, out: &mut Unresolved) {
    match v {
        Value::Object(o) => {
            for (k, x) in o {
                match k.as_str() {
                    "ExpectValue" => {
                        if let Some(n) = x.get(0).and_then(|n| n.as_str()) {
                            out.values.push(n.to_string());
                        }
                    }
                    "ExpectInput" => {
                        if let Some(n) = x.get(0).and_then(|n| n.as_str()) {
                            out.inputs.push(n.to_string());
                        }
                    }
                    "EvalCompiler" => out.compiler_ops += 1,
                    _ => {}
                }
                walk(x, out);
            }
        }
        Value::Array(a) => a.iter().for_each(|x| walk(x, out)),
        Value::String(s) if s == "ExpectFees" => out.fees += 1,
        _ => {}
    }
}

/// name -> type name of every `ExpectValue` node whose type is one of the scalar ones (read off the serialised tree,
/// independently of `find_params`)
pub fn expected_values<T: serde::Serialize>(t: &T) -> std::collections::BTreeMap<String, String> {
    fn go(v: &Value, out: &mut std::collections::BTreeMap<String, String>) {
        match v {
            Value::Object(o) => {
                for (k, x) in o {
                    if k == "ExpectValue" {
                        if let (Some(n), Some(ty)) = (x.get(0).and_then(|n| n.as_str()), x.get(1).and_then(|t| t.as_str())) {
                            out.insert(n.to_string(), ty.to_string());
                        }
                    }
                    go(x, out);
                }
            }
            Value::Array(a) => a.iter().for_each(|x| go(x, out)),
            _ => {}
        }
    }
    let mut out = Default::default();
    go(&to_json(t), &mut out);
    out
}

pub fn unresolved<T: serde::Serialize>(t: &T) -> Unresolved {
    let mut u = Unresolved::default();
    walk(&to_json(t), &mut u);
    u.values.sort();
    u.values.dedup();
    u.inputs.sort();
    u.inputs.dedup();
    u
}

// ---- Tx-level helpers built on the serde-independent structural image (`common::shape`) ----

pub fn canon_tx(t: &tx3_tir::model::v1beta0::Tx) -> Value {
    super::shape::tx(t)
}

pub fn canon_tx_sums(t: &tx3_tir::model::v1beta0::Tx) -> Value {
    super::shape::tx_sums(t)
}

pub fn unresolved_tx(t: &tx3_tir::model::v1beta0::Tx) -> Unresolved {
    let mut u = Unresolved::default();
    walk(&super::shape::tx(t), &mut u);
    u.values.sort();
    u.values.dedup();
    u.inputs.sort();
    u.inputs.dedup();
    u
}
