//! Reads a Conway transaction out of the independent CBOR tree, following the Conway CDDL, into a flat
//! record that oracles compare against. Also exposes the raw body / aux-data byte ranges.

use super::cbor::{self, BigInt, Node};
use super::plutus::{self, PData};
use std::collections::BTreeMap;

pub type AssetMap = BTreeMap<(Vec<u8>, Vec<u8>), BigInt>;

#[derive(Debug, Clone, PartialEq)]
pub struct OutputRec {
    pub address: Vec<u8>,
    pub lovelace: u64,
    pub assets: AssetMap,
    /// inline datum (raw bytes inside the #6.24 wrapper) if any
    pub datum_raw: Option<Vec<u8>>,
    pub datum_hash: Option<Vec<u8>>,
    pub script_ref: Option<Vec<u8>>,
    /// length of the output's own encoding inside the body
    pub raw_len: usize,
}

#[derive(Debug, Clone, PartialEq)]
pub struct RedeemerRec {
    pub tag: u64,
    pub index: u64,
    pub data_raw: Vec<u8>,
    pub ex_units: (u64, u64),
}

#[derive(Debug, Clone, Default, PartialEq)]
pub struct TxRec {
    pub inputs: Vec<(Vec<u8>, u64)>,
    pub outputs: Vec<OutputRec>,
    pub fee: u64,
    pub ttl: Option<u64>,
    pub validity_start: Option<u64>,
    pub mint: AssetMap,
    pub mint_present: bool,
    pub withdrawals: Vec<(Vec<u8>, u64)>,
    pub certificates: usize,
    pub aux_hash: Option<Vec<u8>>,
    pub script_data_hash: Option<Vec<u8>>,
    pub collateral: Vec<(Vec<u8>, u64)>,
    pub required_signers: Vec<Vec<u8>>,
    pub network_id: Option<u64>,
    pub reference_inputs: Vec<(Vec<u8>, u64)>,
    pub donation: Option<u64>,
    pub body_keys: Vec<u64>,
    pub redeemers: Vec<RedeemerRec>,
    pub witness_keys: Vec<u64>,
    pub native_scripts: usize,
    pub plutus_scripts: [usize; 3],
    /// metadata label -> raw CBOR of the metadatum
    pub metadata: Vec<(u64, Vec<u8>)>,
    pub aux_present: bool,
    pub is_valid: bool,
    pub body_range: (usize, usize),
    pub aux_range: Option<(usize, usize)>,
    pub witness_range: (usize, usize),
}

fn input_list(n: &Node) -> Result<Vec<(Vec<u8>, u64)>, String> {
    let items = n.as_set().ok_or("inputs: expected array / set")?;
    items
        .iter()
        .map(|i| {
            let a = i.as_array().ok_or("input: expected [txid, ix]")?;
            if a.len() != 2 {
                return Err("input: expected 2 items".to_string());
            }
            Ok((
                a[0].as_bytes().ok_or("input txid")?.to_vec(),
                a[1].as_u64().ok_or("input index")?,
            ))
        })
        .collect()
}

fn multiasset(n: &Node) -> Result<AssetMap, String> {
    let mut out = AssetMap::new();
    for (p, inner) in n.as_map().ok_or("multiasset: expected map")? {
        let p = p.as_bytes().ok_or("policy id")?.to_vec();
        for (name, amt) in inner.as_map().ok_or("multiasset inner: expected map")? {
            let name = name.as_bytes().ok_or("asset name")?.to_vec();
            let amt = amt.as_int().ok_or("asset amount")?;
            if out.insert((p.clone(), name), amt).is_some() {
                return Err("duplicate asset entry".to_string());
            }
        }
    }
    Ok(out)
}

fn value(n: &Node) -> Result<(u64, AssetMap), String> {
    if let Some(c) = n.as_u64() {
        return Ok((c, AssetMap::new()));
    }
    let a = n.as_array().ok_or("value: expected uint or [coin, multiasset]")?;
    if a.len() != 2 {
        return Err("value: expected 2 items".into());
    }
    Ok((a[0].as_u64().ok_or("value coin")?, multiasset(&a[1])?))
}

fn output(n: &Node, whole: &[u8]) -> Result<OutputRec, String> {
    if let Some(a) = n.as_array() {
        // legacy output
        let (lovelace, assets) = value(a.get(1).ok_or("legacy output value")?)?;
        return Ok(OutputRec {
            address: a.first().and_then(|x| x.as_bytes()).ok_or("legacy output address")?.to_vec(),
            lovelace,
            assets,
            datum_raw: None,
            datum_hash: a.get(2).and_then(|x| x.as_bytes()).map(|b| b.to_vec()),
            script_ref: None,
            raw_len: n.end - n.start,
        });
    }
    let address = n.map_get_u(0).and_then(|x| x.as_bytes()).ok_or("output address")?.to_vec();
    let (lovelace, assets) = value(n.map_get_u(1).ok_or("output value")?)?;
    let mut datum_raw = None;
    let mut datum_hash = None;
    if let Some(d) = n.map_get_u(2) {
        let a = d.as_array().ok_or("datum option")?;
        match a.first().and_then(|x| x.as_u64()) {
            Some(0) => datum_hash = a.get(1).and_then(|x| x.as_bytes()).map(|b| b.to_vec()),
            Some(1) => match a.get(1).map(|x| &x.v) {
                Some(cbor::Cbor::Tag(24, inner)) => {
                    datum_raw = Some(inner.as_bytes().ok_or("inline datum must be #6.24(bytes)")?.to_vec())
                }
                _ => return Err("inline datum must be #6.24(bytes)".into()),
            },
            _ => return Err("datum option discriminant".into()),
        }
    }
    let script_ref = n.map_get_u(3).map(|s| whole[s.start..s.end].to_vec());
    Ok(OutputRec {
        address,
        lovelace,
        assets,
        datum_raw,
        datum_hash,
        script_ref,
        raw_len: n.end - n.start,
    })
}

pub fn decode_tx(payload: &[u8]) -> Result<TxRec, String> {
    let root = cbor::decode(payload).map_err(|e| e.0)?;
    let parts = root.as_array().ok_or("tx: expected array")?;
    if parts.len() != 4 {
        return Err(format!("tx: expected 4 items, got {}", parts.len()));
    }
    let body = &parts[0];
    let wit = &parts[1];
    let mut r = TxRec::default();
    r.body_range = (body.start, body.end);
    r.witness_range = (wit.start, wit.end);
    r.is_valid = matches!(parts[2].v, cbor::Cbor::Simple(21));

    let entries = body.as_map().ok_or("body: expected map")?;
    for (k, _) in entries {
        r.body_keys.push(k.as_u64().ok_or("body key must be uint")?);
    }
    r.inputs = input_list(body.map_get_u(0).ok_or("body without inputs")?)?;
    for o in body.map_get_u(1).and_then(|x| x.as_array()).ok_or("body without outputs")? {
        r.outputs.push(output(o, payload)?);
    }
    r.fee = body.map_get_u(2).and_then(|x| x.as_u64()).ok_or("body without fee")?;
    r.ttl = body.map_get_u(3).map(|x| x.as_u64().ok_or("ttl")).transpose()?;
    if let Some(c) = body.map_get_u(4) {
        r.certificates = c.as_set().ok_or("certificates")?.len();
    }
    if let Some(w) = body.map_get_u(5) {
        for (k, v) in w.as_map().ok_or("withdrawals")? {
            r.withdrawals.push((
                k.as_bytes().ok_or("reward account")?.to_vec(),
                v.as_u64().ok_or("withdrawal amount")?,
            ));
        }
    }
    r.aux_hash = body.map_get_u(7).and_then(|x| x.as_bytes()).map(|b| b.to_vec());
    r.validity_start = body.map_get_u(8).map(|x| x.as_u64().ok_or("validity start")).transpose()?;
    if let Some(m) = body.map_get_u(9) {
        r.mint_present = true;
        r.mint = multiasset(m)?;
    }
    r.script_data_hash = body.map_get_u(11).and_then(|x| x.as_bytes()).map(|b| b.to_vec());
    if let Some(c) = body.map_get_u(13) {
        r.collateral = input_list(c)?;
    }
    if let Some(s) = body.map_get_u(14) {
        for h in s.as_set().ok_or("required signers")? {
            r.required_signers.push(h.as_bytes().ok_or("signer hash")?.to_vec());
        }
    }
    r.network_id = body.map_get_u(15).and_then(|x| x.as_u64());
    if let Some(c) = body.map_get_u(18) {
        r.reference_inputs = input_list(c)?;
    }
    r.donation = body.map_get_u(22).and_then(|x| x.as_u64());

    // witness set
    for (k, v) in wit.as_map().ok_or("witness set: expected map")? {
        let key = k.as_u64().ok_or("witness key")?;
        r.witness_keys.push(key);
        match key {
            1 => r.native_scripts = v.as_set().map(|x| x.len()).unwrap_or(0),
            3 => r.plutus_scripts[0] = v.as_set().map(|x| x.len()).unwrap_or(0),
            6 => r.plutus_scripts[1] = v.as_set().map(|x| x.len()).unwrap_or(0),
            7 => r.plutus_scripts[2] = v.as_set().map(|x| x.len()).unwrap_or(0),
            5 => {
                if let Some(entries) = v.as_map() {
                    for (rk, rv) in entries {
                        let rk = rk.as_array().ok_or("redeemer key")?;
                        let rv = rv.as_array().ok_or("redeemer value")?;
                        let ex = rv.get(1).and_then(|x| x.as_array()).ok_or("ex units")?;
                        let d = rv.first().ok_or("redeemer data")?;
                        r.redeemers.push(RedeemerRec {
                            tag: rk.first().and_then(|x| x.as_u64()).ok_or("redeemer tag")?,
                            index: rk.get(1).and_then(|x| x.as_u64()).ok_or("redeemer index")?,
                            data_raw: payload[d.start..d.end].to_vec(),
                            ex_units: (
                                ex.first().and_then(|x| x.as_u64()).unwrap_or(0),
                                ex.get(1).and_then(|x| x.as_u64()).unwrap_or(0),
                            ),
                        });
                    }
                } else if let Some(items) = v.as_array() {
                    for it in items {
                        let a = it.as_array().ok_or("redeemer item")?;
                        let d = a.get(2).ok_or("redeemer data")?;
                        let ex = a.get(3).and_then(|x| x.as_array()).ok_or("ex units")?;
                        r.redeemers.push(RedeemerRec {
                            tag: a.first().and_then(|x| x.as_u64()).ok_or("redeemer tag")?,
                            index: a.get(1).and_then(|x| x.as_u64()).ok_or("redeemer index")?,
                            data_raw: payload[d.start..d.end].to_vec(),
                            ex_units: (
                                ex.first().and_then(|x| x.as_u64()).unwrap_or(0),
                                ex.get(1).and_then(|x| x.as_u64()).unwrap_or(0),
                            ),
                        });
                    }
                } else {
                    return Err("redeemers: expected map or array".into());
                }
            }
            _ => {}
        }
    }

    // auxiliary data
    let aux = &parts[3];
    if !aux.is_null() {
        r.aux_present = true;
        r.aux_range = Some((aux.start, aux.end));
        let md = match &aux.v {
            cbor::Cbor::Tag(259, inner) => inner.map_get_u(0),
            cbor::Cbor::Map { .. } => Some(aux),
            cbor::Cbor::Array { items, .. } => items.first(),
            _ => return Err("auxiliary data shape".into()),
        };
        if let Some(md) = md {
            for (k, v) in md.as_map().ok_or("metadata: expected map")? {
                r.metadata.push((k.as_u64().ok_or("metadata label")?, payload[v.start..v.end].to_vec()));
            }
        }
    }
    Ok(r)
}

pub fn datum_of(o: &OutputRec) -> Option<Result<PData, String>> {
    o.datum_raw.as_ref().map(|b| plutus::read_bytes(b))
}

pub fn blake2b256(b: &[u8]) -> Vec<u8> {
    tx3_cardano::pallas::crypto::hash::Hasher::<256>::hash(b).to_vec()
}
