//! A boring in-memory `UtxoStore`: a list of UTxOs, filtered linearly. Every answer it hands out is a
//! freshly built `HashSet`, whose iteration order (decided by std's per-instance random hasher) is logged
//! so that callers can report which orders were observed.

use std::collections::HashSet;
use std::sync::Mutex;
use tx3_resolver::{Error, UtxoPattern, UtxoStore};
use tx3_tir::model::assets::AssetClass;
use tx3_tir::model::core::{Utxo, UtxoRef, UtxoSet};

pub struct MemStore {
    pub utxos: Vec<Utxo>,
    /// iteration orders (as positions in `utxos`) of every `fetch_utxos` answer handed out
    pub fetch_orders: Mutex<Vec<Vec<usize>>>,
    /// environment choice: for the k-th fetch of this store's life, the rank of the permutation (of the
    /// answer's positions in ascending order) that the answer's iteration order must have. The answer set
    /// is rebuilt (std gives every new HashSet a new hasher key) until it iterates in that order.
    pub order_plan: Mutex<Vec<usize>>,
}

pub fn factorial(n: usize) -> usize {
    (1..=n).product::<usize>().max(1)
}

/// k-th permutation (lexicographic rank) of `items`
pub fn nth_permutation(items: &[usize], mut k: usize) -> Vec<usize> {
    let mut pool = items.to_vec();
    let mut out = vec![];
    while !pool.is_empty() {
        let f = factorial(pool.len() - 1);
        let i = (k / f).min(pool.len() - 1);
        k %= f;
        out.push(pool.remove(i));
    }
    out
}

impl MemStore {
    pub fn new(utxos: Vec<Utxo>) -> Self {
        Self {
            utxos,
            fetch_orders: Mutex::new(vec![]),
            order_plan: Mutex::new(vec![]),
        }
    }

    pub fn position(&self, r: &UtxoRef) -> Option<usize> {
        self.utxos.iter().position(|u| &u.r#ref == r)
    }
}

impl UtxoStore for MemStore {
    async fn narrow_refs(&self, pattern: UtxoPattern<'_>) -> Result<HashSet<UtxoRef>, Error> {
        let out = self
            .utxos
            .iter()
            .filter(|u| match &pattern {
                UtxoPattern::ByAddress(a) => u.address.as_slice() == *a,
                UtxoPattern::ByAssetPolicy(p) => u.assets.iter().any(|(c, amt)| {
                    *amt > 0 && matches!(c, AssetClass::Defined(pp, _) if pp.as_slice() == *p)
                }),
                UtxoPattern::ByAsset(p, n) => u.assets.iter().any(|(c, amt)| {
                    *amt > 0
                        && matches!(c, AssetClass::Defined(pp, nn) if pp.as_slice() == *p && nn.as_slice() == *n)
                }),
            })
            .map(|u| u.r#ref.clone())
            .collect();
        Ok(out)
    }

    async fn fetch_utxos(&self, refs: HashSet<UtxoRef>) -> Result<UtxoSet, Error> {
        let items: Vec<&Utxo> = self.utxos.iter().filter(|u| refs.contains(&u.r#ref)).collect();
        let fetch_no = self.fetch_orders.lock().unwrap().len();
        let wanted = self.order_plan.lock().unwrap().get(fetch_no).copied();
        let mut tries = 0usize;
        loop {
            let out: UtxoSet = items.iter().map(|u| (*u).clone()).collect();
            let order: Vec<usize> = out.iter().filter_map(|u| self.position(&u.r#ref)).collect();
            let ok = match wanted {
                Some(rank) if items.len() >= 2 && items.len() <= 5 => {
                    let mut sorted = order.clone();
                    sorted.sort();
                    order == nth_permutation(&sorted, rank % factorial(sorted.len()))
                }
                _ => true,
            };
            tries += 1;
            if ok {
                self.fetch_orders.lock().unwrap().push(order);
                return Ok(out);
            }
            assert!(tries < 100_000, "harness: could not obtain the planned set order");
        }
    }
}

/// Builds a `HashSet<Utxo>` whose iteration order is the `rank`-th permutation of `items` (std gives every
/// new set a fresh hasher key, so rebuilding eventually yields every order; sets of <= 5 elements).
pub fn ordered_utxo_set(items: &[Utxo], rank: usize) -> UtxoSet {
    if items.len() < 2 {
        return items.iter().cloned().collect();
    }
    assert!(items.len() <= 5, "harness: ordered sets are limited to 5 elements");
    let idx: Vec<usize> = (0..items.len()).collect();
    let want = nth_permutation(&idx, rank % factorial(items.len()));
    for _ in 0..200_000 {
        let set: UtxoSet = items.iter().cloned().collect();
        let order: Vec<usize> = set
            .iter()
            .map(|u| items.iter().position(|x| x.r#ref == u.r#ref).unwrap())
            .collect();
        if order == want {
            return set;
        }
    }
    panic!("harness: could not obtain the planned set order");
}
