//! Typed program generator: its own small syntax tree (`GProg`), a printer with layout alternatives, and a
//! `dbx` generator whose default is the plainest well-typed program. Every produced program is type-correct
//! by construction; the reference semantics (`common::sem`) is defined over this tree, not over the
//! repository's AST or IR.

use crate::engine::dbx::Chooser;
use serde::{Deserialize, Serialize};

// ------------------------------------------------------------------------------------------------
// syntax

#[derive(Debug, Clone, Serialize, Deserialize, PartialEq)]
pub enum IntE {
    Lit(i64),
    Param(String),
    Env(String),
    Local(String),
    Add(Box<IntE>, Box<IntE>),
    Sub(Box<IntE>, Box<IntE>),
    Neg(Box<IntE>),
    Paren(Box<IntE>),
    /// field of the (single-UTxO) input's datum: input name, field index, field name
    InputField(String, usize, String),
    /// element of a list-typed datum field: input, field index, field name, element index expression
    InputListItem(String, usize, String, Box<IntE>),
    TipSlot,
    SlotToTime(Box<IntE>),
    TimeToSlot(Box<IntE>),
}

#[derive(Debug, Clone, Serialize, Deserialize, PartialEq)]
pub enum BytesE {
    Hex(Vec<u8>),
    Str(String),
    Param(String),
    Env(String),
    Local(String),
    Concat(Box<BytesE>, Box<BytesE>),
    InputField(String, usize, String),
    /// the name of a policy definition used as a value: (name, the hash it stands for)
    PolicyName(String, Vec<u8>),
}

#[derive(Debug, Clone, Serialize, Deserialize, PartialEq)]
pub enum AssetE {
    Ada(IntE),
    /// statically defined asset (index into `GProg.assets`) times amount
    Tok(usize, IntE),
    AnyAsset(BytesE, BytesE, IntE),
    /// all value held by the UTxOs of an input block
    Input(String),
    Fees,
    Local(String),
    Add(Box<AssetE>, Box<AssetE>),
    Sub(Box<AssetE>, Box<AssetE>),
    Paren(Box<AssetE>),
    /// `!x`: every amount negated
    Neg(Box<AssetE>),
}

#[derive(Debug, Clone, Serialize, Deserialize, PartialEq)]
pub enum DataE {
    Int(IntE),
    Bytes(BytesE),
    Bool(bool),
    Unit,
    /// record of type `ty` (index into types): explicit (field index, value) pairs in written order, optional
    /// spread from an input whose datum has the same type
    Rec { ty: usize, fields: Vec<(usize, DataE)>, spread: Option<String> },
    Var { ty: usize, case: usize, fields: Vec<(usize, DataE)> },
    List(Vec<DataE>),
    Map(Vec<(DataE, DataE)>),
    /// the whole datum of a single-UTxO input
    InputDatum(String),
    Local(String),
}

#[derive(Debug, Clone, Serialize, Deserialize, PartialEq)]
pub enum AddrE {
    Party(String),
    /// script address of a policy (index into policies)
    Policy(usize),
    Hex(Vec<u8>),
    /// the address written as a string literal holding its hex / its bech32 text
    HexString(Vec<u8>),
    Bech32String(Vec<u8>),
}

#[derive(Debug, Clone, Serialize, Deserialize, PartialEq)]
pub enum RefE {
    Lit(Vec<u8>, u64),
    Param(String),
}

#[derive(Debug, Clone, Serialize, Deserialize, PartialEq)]
pub enum FieldTy {
    Int,
    Bytes,
    Bool,
    ListInt,
    Rec(usize),
}

#[derive(Debug, Clone, Serialize, Deserialize, PartialEq)]
pub struct TypeDef {
    pub name: String,
    /// cases; a record type has exactly one case named like the type
    pub cases: Vec<(String, Vec<(String, FieldTy)>)>,
    pub is_record: bool,
}

#[derive(Debug, Clone, Serialize, Deserialize, PartialEq)]
pub enum LocalE {
    Int(IntE),
    Asset(AssetE),
    Bytes(BytesE),
    Data(DataE),
}

#[derive(Debug, Clone, Serialize, Deserialize, PartialEq)]
pub struct GInput {
    pub name: String,
    pub many: bool,
    pub from: Option<AddrE>,
    pub min_amount: Option<AssetE>,
    pub r#ref: Option<RefE>,
    pub redeemer: Option<DataE>,
    pub datum_is: Option<usize>,
}

#[derive(Debug, Clone, Serialize, Deserialize, PartialEq)]
pub struct GOutput {
    pub name: Option<String>,
    pub optional: bool,
    pub to: AddrE,
    pub amount: AssetE,
    pub datum: Option<DataE>,
}

/// `cardano::publish`: one more output, after the regular ones, that carries a reference script
#[derive(Debug, Clone, Serialize, Deserialize, PartialEq)]
pub struct GPublish {
    pub to: AddrE,
    pub amount: AssetE,
    pub datum: Option<DataE>,
    pub version: u8,
    pub script: Vec<u8>,
}

#[derive(Debug, Clone, Serialize, Deserialize, PartialEq)]
pub struct GMint {
    pub amount: AssetE,
    pub redeemer: DataE,
    /// the block is written without a `redeemer` field (a native-script policy)
    #[serde(default)]
    pub no_redeemer: bool,
}

#[derive(Debug, Clone, Serialize, Deserialize, PartialEq)]
pub enum ParamTy {
    Int,
    Bytes,
    UtxoRef,
    Bool,
}

#[derive(Debug, Clone, Serialize, Deserialize, PartialEq, Default)]
pub struct GProg {
    pub env: Vec<(String, ParamTy)>,
    pub parties: Vec<String>,
    /// name, 28-byte hash
    pub policies: Vec<(String, Vec<u8>)>,
    /// name, policy bytes, asset name (string)
    pub assets: Vec<(String, Vec<u8>, String)>,
    pub types: Vec<TypeDef>,
    pub params: Vec<(String, ParamTy)>,
    pub locals: Vec<(String, LocalE)>,
    pub inputs: Vec<GInput>,
    pub outputs: Vec<GOutput>,
    pub mints: Vec<GMint>,
    pub burns: Vec<GMint>,
    pub since: Option<IntE>,
    pub until: Option<IntE>,
    pub signers: Vec<SignerE>,
    pub metadata: Vec<(IntE, MetaE)>,
    pub references: Vec<(String, RefE)>,
    pub collateral: Option<GCollateral>,
    /// cardano::withdrawal blocks: reward account (an address whose delegation part is taken), amount
    #[serde(default)]
    pub withdrawals: Vec<(AddrE, IntE)>,
    #[serde(default)]
    pub publishes: Vec<GPublish>,
    /// the withdrawal blocks are written without a `redeemer` field (nothing guards them: no redeemer is emitted)
    #[serde(default)]
    pub withdrawal_no_redeemer: bool,
    /// cardano::treasury_donation { coin }
    #[serde(default)]
    pub donation: Option<IntE>,
    /// block order inside the tx body (indices into a fixed list of block kinds), for "disordered" programs
    pub body_rotation: usize,
}

#[derive(Debug, Clone, Serialize, Deserialize, PartialEq)]
pub enum SignerE {
    Party(String),
    Hash(Vec<u8>),
}

#[derive(Debug, Clone, Serialize, Deserialize, PartialEq)]
pub enum MetaE {
    Int(IntE),
    Str(String),
    Bytes(BytesE),
}

#[derive(Debug, Clone, Serialize, Deserialize, PartialEq)]
pub struct GCollateral {
    pub from: Option<AddrE>,
    pub min_amount: Option<AssetE>,
    pub r#ref: Option<RefE>,
}

// ------------------------------------------------------------------------------------------------
// printer: tokens first, layout second

pub const LAYOUTS: [&str; 7] = ["canonical", "minimal", "newline-per-token", "tabs-crlf", "line-comments", "block-comments", "trailing-commas"];

struct P {
    t: Vec<String>,
    trailing: bool,
}

impl P {
    fn tok(&mut self, s: &str) {
        self.t.push(s.to_string());
    }
    fn toks(&mut self, ss: &[&str]) {
        for s in ss {
            self.tok(s);
        }
    }
    /// `nl` marks a preferred line break for the canonical layout
    fn nl(&mut self) {
        self.t.push("\n".to_string());
    }

    fn int(&mut self, e: &IntE) {
        match e {
            IntE::Lit(n) => self.tok(&n.to_string()),
            IntE::Param(n) | IntE::Env(n) | IntE::Local(n) => self.tok(n),
            IntE::Add(a, b) => {
                self.int(a);
                self.tok("+");
                self.int(b);
            }
            IntE::Sub(a, b) => {
                self.int(a);
                self.tok("-");
                self.int(b);
            }
            IntE::Neg(a) => {
                self.tok("!");
                self.int(a);
            }
            IntE::Paren(a) => {
                self.tok("(");
                self.int(a);
                self.tok(")");
            }
            IntE::InputField(i, _, f) => self.toks(&[i, ".", f]),
            IntE::InputListItem(i, _, f, ix) => {
                self.toks(&[i, ".", f, "["]);
                self.int(ix);
                self.tok("]");
            }
            IntE::TipSlot => self.toks(&["tip_slot", "()"]),
            IntE::SlotToTime(a) => {
                self.toks(&["slot_to_time", "("]);
                self.int(a);
                self.tok(")");
            }
            IntE::TimeToSlot(a) => {
                self.toks(&["time_to_slot", "("]);
                self.int(a);
                self.tok(")");
            }
        }
    }

    fn bytes(&mut self, e: &BytesE) {
        match e {
            BytesE::Hex(b) => self.tok(&format!("0x{}", hex::encode(b))),
            BytesE::Str(s) => self.tok(&format!("\"{s}\"")),
            BytesE::Param(n) | BytesE::Env(n) | BytesE::Local(n) => self.tok(n),
            BytesE::Concat(a, b) => {
                self.toks(&["concat", "("]);
                self.bytes(a);
                self.tok(",");
                self.bytes(b);
                self.tok(")");
            }
            BytesE::InputField(i, _, f) => self.toks(&[i, ".", f]),
            BytesE::PolicyName(n, _) => self.tok(n),
        }
    }

    fn asset(&mut self, e: &AssetE, prog: &GProg) {
        match e {
            AssetE::Ada(n) => {
                self.toks(&["Ada", "("]);
                self.int(n);
                self.tok(")");
            }
            AssetE::Tok(a, n) => {
                self.toks(&[&prog.assets[*a].0, "("]);
                self.int(n);
                self.tok(")");
            }
            AssetE::AnyAsset(p, n, q) => {
                self.toks(&["AnyAsset", "("]);
                self.bytes(p);
                self.tok(",");
                self.bytes(n);
                self.tok(",");
                self.int(q);
                self.tok(")");
            }
            AssetE::Input(n) | AssetE::Local(n) => self.tok(n),
            AssetE::Fees => self.tok("fees"),
            AssetE::Add(a, b) => {
                self.asset(a, prog);
                self.tok("+");
                self.asset(b, prog);
            }
            AssetE::Sub(a, b) => {
                self.asset(a, prog);
                self.tok("-");
                self.asset(b, prog);
            }
            AssetE::Paren(a) => {
                self.tok("(");
                self.asset(a, prog);
                self.tok(")");
            }
            AssetE::Neg(a) => {
                self.tok("!");
                self.asset(a, prog);
            }
        }
    }

    fn data(&mut self, e: &DataE, prog: &GProg) {
        match e {
            DataE::Int(x) => self.int(x),
            DataE::Bytes(x) => self.bytes(x),
            DataE::Bool(b) => self.tok(if *b { "true" } else { "false" }),
            DataE::Unit => self.tok("()"),
            DataE::Rec { ty, fields, spread } => {
                let t = &prog.types[*ty];
                self.toks(&[&t.name, "{"]);
                for (fi, v) in fields {
                    self.toks(&[&t.cases[0].1[*fi].0, ":"]);
                    self.data(v, prog);
                    self.tok(",");
                }
                if let Some(s) = spread {
                    self.toks(&["...", s]);
                }
                self.tok("}");
            }
            DataE::Var { ty, case, fields } => {
                let t = &prog.types[*ty];
                self.toks(&[&t.name, "::", &t.cases[*case].0, "{"]);
                for (fi, v) in fields {
                    self.toks(&[&t.cases[*case].1[*fi].0, ":"]);
                    self.data(v, prog);
                    self.tok(",");
                }
                self.tok("}");
            }
            DataE::List(xs) => {
                self.tok("[");
                for (i, x) in xs.iter().enumerate() {
                    self.data(x, prog);
                    if i + 1 < xs.len() || self.trailing {
                        self.tok(",");
                    }
                }
                self.tok("]");
            }
            DataE::Map(es) => {
                self.tok("{");
                for (k, v) in es {
                    self.data(k, prog);
                    self.tok(":");
                    self.data(v, prog);
                    self.tok(",");
                }
                self.tok("}");
            }
            DataE::InputDatum(n) | DataE::Local(n) => self.tok(n),
        }
    }

    fn addr(&mut self, e: &AddrE, prog: &GProg) {
        match e {
            AddrE::Party(n) => self.tok(n),
            AddrE::Policy(i) => self.tok(&prog.policies[*i].0),
            AddrE::Hex(b) => self.tok(&format!("0x{}", hex::encode(b))),
            AddrE::HexString(b) => self.tok(&format!("\"{}\"", hex::encode(b))),
            AddrE::Bech32String(b) => {
                let hrp = if b.first().map(|h| h & 0x0f == 1).unwrap_or(false) { "addr" } else { "addr_test" };
                self.tok(&format!("\"{}\"", crate::props::c16::bech32_enc(hrp, b)))
            }
        }
    }

    fn rf(&mut self, e: &RefE) {
        match e {
            RefE::Lit(t, i) => self.tok(&format!("0x{}#{i}", hex::encode(t))),
            RefE::Param(n) => self.tok(n),
        }
    }

    fn field_ty(&mut self, t: &FieldTy, prog: &GProg) {
        match t {
            FieldTy::Int => self.tok("Int"),
            FieldTy::Bytes => self.tok("Bytes"),
            FieldTy::Bool => self.tok("Bool"),
            FieldTy::ListInt => self.toks(&["List<", "Int", ">"]),
            FieldTy::Rec(i) => self.tok(&prog.types[*i].name),
        }
    }

    fn param_ty(&mut self, t: &ParamTy) {
        self.tok(match t {
            ParamTy::Int => "Int",
            ParamTy::Bytes => "Bytes",
            ParamTy::UtxoRef => "UtxoRef",
            ParamTy::Bool => "Bool",
        })
    }
}

pub fn tokens(prog: &GProg, trailing: bool) -> Vec<String> {
    let mut p = P { t: vec![], trailing };
    if !prog.env.is_empty() {
        p.toks(&["env", "{"]);
        p.nl();
        for (n, t) in &prog.env {
            p.toks(&[n, ":"]);
            p.param_ty(t);
            p.tok(",");
            p.nl();
        }
        p.tok("}");
        p.nl();
    }
    for n in &prog.parties {
        p.toks(&["party", n, ";"]);
        p.nl();
    }
    for (n, h) in &prog.policies {
        p.toks(&["policy", n, "=", &format!("0x{}", hex::encode(h)), ";"]);
        p.nl();
    }
    for (n, pol, name) in &prog.assets {
        p.toks(&["asset", n, "=", &format!("0x{}", hex::encode(pol)), ".", &format!("\"{name}\""), ";"]);
        p.nl();
    }
    for t in &prog.types {
        p.toks(&["type", &t.name, "{"]);
        p.nl();
        if t.is_record {
            for (f, ft) in &t.cases[0].1 {
                p.toks(&[f, ":"]);
                p.field_ty(ft, prog);
                p.tok(",");
                p.nl();
            }
        } else {
            for (c, fs) in &t.cases {
                p.tok(c);
                if !fs.is_empty() {
                    p.tok("{");
                    for (f, ft) in fs {
                        p.toks(&[f, ":"]);
                        p.field_ty(ft, prog);
                        p.tok(",");
                    }
                    p.tok("}");
                }
                p.tok(",");
                p.nl();
            }
        }
        p.tok("}");
        p.nl();
    }
    p.toks(&["tx", "t", "("]);
    for (i, (n, t)) in prog.params.iter().enumerate() {
        p.toks(&[n, ":"]);
        p.param_ty(t);
        if i + 1 < prog.params.len() || trailing {
            p.tok(",");
        }
    }
    p.toks(&[")", "{"]);
    p.nl();

    // body blocks, collected so that their order can be rotated
    let mut blocks: Vec<Vec<String>> = vec![];
    let mut take = |p: &mut P, start: usize| -> Vec<String> { p.t.split_off(start) };
    let mark = p.t.len();
    if !prog.locals.is_empty() {
        p.toks(&["locals", "{"]);
        p.nl();
        for (n, e) in &prog.locals {
            p.toks(&[n, ":"]);
            match e {
                LocalE::Int(x) => p.int(x),
                LocalE::Asset(x) => p.asset(x, prog),
                LocalE::Bytes(x) => p.bytes(x),
                LocalE::Data(x) => p.data(x, prog),
            }
            p.tok(",");
            p.nl();
        }
        p.tok("}");
        p.nl();
        blocks.push(take(&mut p, mark));
    }
    for (name, r) in &prog.references {
        let m = p.t.len();
        p.toks(&["reference", name, "{", "ref", ":"]);
        p.rf(r);
        p.toks(&[",", "}"]);
        p.nl();
        blocks.push(take(&mut p, m));
    }
    for i in &prog.inputs {
        let m = p.t.len();
        p.tok("input");
        if i.many {
            p.tok("*");
        }
        p.toks(&[&i.name, "{"]);
        p.nl();
        if let Some(a) = &i.from {
            p.toks(&["from", ":"]);
            p.addr(a, prog);
            p.tok(",");
            p.nl();
        }
        if let Some(t) = i.datum_is {
            p.toks(&["datum_is", ":", &prog.types[t].name, ","]);
            p.nl();
        }
        if let Some(a) = &i.min_amount {
            p.toks(&["min_amount", ":"]);
            p.asset(a, prog);
            p.tok(",");
            p.nl();
        }
        if let Some(r) = &i.r#ref {
            p.toks(&["ref", ":"]);
            p.rf(r);
            p.tok(",");
            p.nl();
        }
        if let Some(d) = &i.redeemer {
            p.toks(&["redeemer", ":"]);
            p.data(d, prog);
            p.tok(",");
            p.nl();
        }
        p.tok("}");
        p.nl();
        blocks.push(take(&mut p, m));
    }
    if let Some(c) = &prog.collateral {
        let m = p.t.len();
        p.toks(&["collateral", "{"]);
        if let Some(a) = &c.from {
            p.toks(&["from", ":"]);
            p.addr(a, prog);
            p.tok(",");
        }
        if let Some(a) = &c.min_amount {
            p.toks(&["min_amount", ":"]);
            p.asset(a, prog);
            p.tok(",");
        }
        if let Some(r) = &c.r#ref {
            p.toks(&["ref", ":"]);
            p.rf(r);
            p.tok(",");
        }
        p.tok("}");
        p.nl();
        blocks.push(take(&mut p, m));
    }
    for (from, amount) in &prog.withdrawals {
        let m = p.t.len();
        p.toks(&["cardano", "::", "withdrawal", "{", "from", ":"]);
        p.addr(from, prog);
        p.toks(&[",", "amount", ":"]);
        p.int(amount);
        if prog.withdrawal_no_redeemer {
            p.toks(&[",", "}"]);
        } else {
            p.toks(&[",", "redeemer", ":", "()", ",", "}"]);
        }
        p.nl();
        blocks.push(take(&mut p, m));
    }
    for pb in &prog.publishes {
        let m = p.t.len();
        p.toks(&["cardano", "::", "publish", "{", "to", ":"]);
        p.addr(&pb.to, prog);
        p.toks(&[",", "amount", ":"]);
        p.asset(&pb.amount, prog);
        if let Some(d) = &pb.datum {
            p.toks(&[",", "datum", ":"]);
            p.data(d, prog);
        }
        p.toks(&[",", "version", ":"]);
        p.tok(&pb.version.to_string());
        p.toks(&[",", "script", ":"]);
        p.tok(&format!("0x{}", hex::encode(&pb.script)));
        p.toks(&[",", "}"]);
        p.nl();
        blocks.push(take(&mut p, m));
    }
    if let Some(coin) = &prog.donation {
        let m = p.t.len();
        p.toks(&["cardano", "::", "treasury_donation", "{", "coin", ":"]);
        p.int(coin);
        p.toks(&[",", "}"]);
        p.nl();
        blocks.push(take(&mut p, m));
    }
    for (kw, list) in [("mint", &prog.mints), ("burn", &prog.burns)] {
        for mnt in list.iter() {
            let m = p.t.len();
            p.toks(&[kw, "{", "amount", ":"]);
            p.asset(&mnt.amount, prog);
            if !mnt.no_redeemer {
                p.toks(&[",", "redeemer", ":"]);
                p.data(&mnt.redeemer, prog);
            }
            p.toks(&[",", "}"]);
            p.nl();
            blocks.push(take(&mut p, m));
        }
    }
    for o in &prog.outputs {
        let m = p.t.len();
        p.tok("output");
        if o.optional {
            p.tok("?");
        }
        if let Some(n) = &o.name {
            p.tok(n);
        }
        p.tok("{");
        p.nl();
        p.toks(&["to", ":"]);
        p.addr(&o.to, prog);
        p.tok(",");
        p.nl();
        p.toks(&["amount", ":"]);
        p.asset(&o.amount, prog);
        p.tok(",");
        p.nl();
        if let Some(d) = &o.datum {
            p.toks(&["datum", ":"]);
            p.data(d, prog);
            p.tok(",");
            p.nl();
        }
        p.tok("}");
        p.nl();
        blocks.push(take(&mut p, m));
    }
    if !prog.signers.is_empty() {
        let m = p.t.len();
        p.toks(&["signers", "{"]);
        for s in &prog.signers {
            match s {
                SignerE::Party(n) => p.tok(n),
                SignerE::Hash(h) => p.tok(&format!("0x{}", hex::encode(h))),
            }
            p.tok(",");
        }
        p.tok("}");
        p.nl();
        blocks.push(take(&mut p, m));
    }
    if prog.since.is_some() || prog.until.is_some() {
        let m = p.t.len();
        p.toks(&["validity", "{"]);
        if let Some(s) = &prog.since {
            p.toks(&["since_slot", ":"]);
            p.int(s);
            p.tok(",");
        }
        if let Some(u) = &prog.until {
            p.toks(&["until_slot", ":"]);
            p.int(u);
            p.tok(",");
        }
        p.tok("}");
        p.nl();
        blocks.push(take(&mut p, m));
    }
    if !prog.metadata.is_empty() {
        let m = p.t.len();
        p.toks(&["metadata", "{"]);
        for (k, v) in &prog.metadata {
            p.int(k);
            p.tok(":");
            match v {
                MetaE::Int(x) => p.int(x),
                MetaE::Str(s) => p.tok(&format!("\"{s}\"")),
                MetaE::Bytes(b) => p.bytes(b),
            }
            p.tok(",");
        }
        p.tok("}");
        p.nl();
        blocks.push(take(&mut p, m));
    }
    // reorder the blocks; outputs keep their relative order, which is what the transaction preserves
    let is_output = |b: &Vec<String>| b.first().map(|t| t == "output").unwrap_or(false);
    let (outs, others): (Vec<Vec<String>>, Vec<Vec<String>>) = blocks.into_iter().partition(is_output);
    let blocks: Vec<Vec<String>> = match prog.body_rotation % 4 {
        0 => {
            // source order of the generator: everything else first, outputs after their inputs
            let mut v = others;
            // outputs were emitted after inputs / mints and before signers etc.; keep it simple: append
            v.extend(outs);
            v
        }
        1 => outs.into_iter().chain(others).collect(),
        2 => others.into_iter().rev().chain(outs).collect(),
        _ => {
            let mut v = vec![];
            let mut o = outs.into_iter();
            let mut r = others.into_iter();
            loop {
                let a = o.next();
                let b = r.next();
                if a.is_none() && b.is_none() {
                    break;
                }
                v.extend(a);
                v.extend(b);
            }
            v
        }
    };
    for b in blocks {
        p.t.extend(b);
    }
    p.tok("}");
    p.nl();
    p.t
}

pub fn render(prog: &GProg, layout: usize) -> String {
    let trailing = LAYOUTS[layout] == "trailing-commas";
    let toks = tokens(prog, trailing);
    let real: Vec<&String> = toks.iter().filter(|t| *t != "\n").collect();
    match LAYOUTS[layout] {
        "minimal" => real.iter().map(|s| s.as_str()).collect::<Vec<_>>().join(" "),
        "newline-per-token" => real.iter().map(|s| s.as_str()).collect::<Vec<_>>().join("\n"),
        "tabs-crlf" => {
            let mut out = String::new();
            for t in &toks {
                if t == "\n" {
                    out.push_str("\r\n\t");
                } else {
                    out.push_str(t);
                    out.push('\t');
                }
            }
            out
        }
        "line-comments" => real.iter().map(|s| format!("{s} // c: é {{ }}\n")).collect(),
        "block-comments" => real.iter().map(|s| format!("{s} /* c: * / \" */ ")).collect(),
        _ => {
            // canonical / trailing-commas: one statement per line, indentation by brace depth
            let mut out = String::new();
            let mut depth = 0usize;
            let mut line_start = true;
            for t in &toks {
                if t == "\n" {
                    out.push('\n');
                    line_start = true;
                    continue;
                }
                if t == "}" && depth > 0 {
                    depth -= 1;
                }
                if line_start {
                    out.push_str(&"    ".repeat(depth));
                    line_start = false;
                } else {
                    out.push(' ');
                }
                out.push_str(t);
                if t == "{" {
                    depth += 1;
                }
            }
            out
        }
    }
}

// ------------------------------------------------------------------------------------------------
// generator

pub struct Gen<'a> {
    pub c: &'a mut Chooser,
    /// labels of the non-default choices taken
    pub labels: Vec<String>,
}

impl<'a> Gen<'a> {
    /// choice point with named alternatives (alternative 0 is the default)
    pub fn pick(&mut self, point: &str, alts: &[&str]) -> usize {
        let i = self.c.choose(alts.len());
        if i != 0 {
            self.labels.push(format!("{point}={}", alts[i]));
        }
        i
    }
}

pub const POLICY_A: [u8; 28] = [0xA1; 28];
pub const POLICY_B: [u8; 28] = [0xB2; 28];
pub const POLICY_C: [u8; 28] = [0xC3; 28];

/// What the environment of one execution looks like besides the program
#[derive(Debug, Clone, Serialize, Deserialize, PartialEq)]
pub struct Scenario {
    pub prog: GProg,
    pub layout: usize,
    pub network: u8,
    pub fee: u64,
    /// value of the Int parameter `q`
    #[serde(with = "crate::common::i128_str")]
    pub q: i128,
    /// value of the Int parameter `n` (declared only by programs that use it; C02 sweeps it)
    #[serde(default = "default_n", with = "crate::common::i128_str")]
    pub n: i128,
    /// extra lovelace added to the main input's first UTxO (C02 stores: huge holdings)
    #[serde(default, with = "crate::common::i128_str")]
    pub extra_lovelace: i128,
    /// which UTxO content the main input gets (index into a small alphabet, see `sem::utxo_alphabet`)
    pub utxo: usize,
    pub labels: Vec<String>,
}

fn default_n() -> i128 {
    9
}

fn ensure_n(prog: &mut GProg) -> IntE {
    if !prog.params.iter().any(|(n, _)| n == "n") {
        prog.params.push(("n".into(), ParamTy::Int));
    }
    IntE::Param("n".into())
}

fn int_leaf(g: &mut Gen, point: &str, prog: &mut GProg) -> IntE {
    let alts = ["q", "lit", "lit+q", "q-lit", "paren", "env", "local", "neg-neg", "slot_to_time-before-tip", "neg"];
    match alts[g.pick(point, &alts)] {
        "q" => IntE::Param("q".into()),
        "lit" => IntE::Lit(1500000),
        "lit+q" => IntE::Add(Box::new(IntE::Lit(1000)), Box::new(IntE::Param("q".into()))),
        "q-lit" => IntE::Sub(Box::new(IntE::Param("q".into())), Box::new(IntE::Lit(1))),
        "paren" => IntE::Sub(Box::new(IntE::Param("q".into())), Box::new(IntE::Paren(Box::new(IntE::Sub(Box::new(IntE::Lit(10)), Box::new(IntE::Lit(3))))))),
        "env" => {
            ensure_env(prog);
            IntE::Env("limit".into())
        }
        "local" => {
            ensure_local_int(prog);
            IntE::Local("bonus".into())
        }
        "slot_to_time-before-tip" => IntE::SlotToTime(Box::new(IntE::Lit(4321))),
        "neg" => IntE::Neg(Box::new(IntE::Param("q".into()))),
        _ => IntE::Neg(Box::new(IntE::Neg(Box::new(IntE::Param("q".into()))))),
    }
}

fn ensure_env(prog: &mut GProg) {
    if prog.env.is_empty() {
        prog.env.push(("limit".into(), ParamTy::Int));
        prog.env.push(("tag".into(), ParamTy::Bytes));
    }
}

fn ensure_local_int(prog: &mut GProg) {
    if !prog.locals.iter().any(|(n, _)| n == "bonus") {
        prog.locals.push(("bonus".into(), LocalE::Int(IntE::Add(Box::new(IntE::Param("q".into())), Box::new(IntE::Lit(7))))));
    }
}

fn ensure_asset_def(prog: &mut GProg) -> usize {
    if prog.assets.is_empty() {
        prog.assets.push(("Gold".into(), POLICY_A.to_vec(), "GOLD".into()));
    }
    0
}

fn ensure_policy(prog: &mut GProg) -> usize {
    if prog.policies.is_empty() {
        prog.policies.push(("Vault".into(), POLICY_B.to_vec()));
    }
    0
}

pub fn record_type() -> TypeDef {
    TypeDef {
        name: "State".into(),
        cases: vec![(
            "State".into(),
            vec![("counter".into(), FieldTy::Int), ("owner".into(), FieldTy::Bytes), ("limits".into(), FieldTy::ListInt)],
        )],
        is_record: true,
    }
}

pub fn variant_type() -> TypeDef {
    TypeDef {
        name: "Action".into(),
        cases: vec![
            ("Stop".into(), vec![]),
            ("Move".into(), vec![("dx".into(), FieldTy::Int), ("tag".into(), FieldTy::Bytes)]),
            ("Wait".into(), vec![("until".into(), FieldTy::Int)]),
        ],
        is_record: false,
    }
}

fn ensure_types(prog: &mut GProg) {
    if prog.types.is_empty() {
        prog.types.push(record_type());
        prog.types.push(variant_type());
    }
}

/// makes sure there is a second, single-UTxO input `st` whose datum is a `State` record
fn ensure_datum_input(prog: &mut GProg) {
    ensure_types(prog);
    if !prog.inputs.iter().any(|i| i.name == "st") {
        prog.inputs.push(GInput {
            name: "st".into(),
            many: false,
            from: Some(AddrE::Party(prog.parties[0].clone())),
            min_amount: Some(AssetE::Ada(IntE::Lit(1))),
            r#ref: None,
            redeemer: None,
            datum_is: Some(0),
        });
        // its value flows back to the sender so that the transaction stays balanced
        if let Some(last) = prog.outputs.last_mut() {
            last.amount = AssetE::Add(Box::new(last.amount.clone()), Box::new(AssetE::Input("st".into())));
        }
    }
}

fn gen_datum(g: &mut Gen, point: &str, prog: &mut GProg) -> Option<DataE> {
    let alts = [
        "none", "int", "int-n", "bytes", "bool", "unit", "record", "record-out-of-order", "variant", "variant-unit-case", "list", "map", "spread", "spread-all", "input-datum",
        "input-field", "input-list-item", "concat", "nested-list", "input-list-item-by-name", "map-n-value", "map-n-key",
    ];
    let q = || DataE::Int(IntE::Param("q".into()));
    Some(match alts[g.pick(point, &alts)] {
        "none" => return None,
        "int" => DataE::Int(int_leaf(g, &format!("{point}.int"), prog)),
        "int-n" => DataE::List(vec![DataE::Int(ensure_n(prog)), DataE::Int(IntE::Sub(Box::new(IntE::Lit(0)), Box::new(ensure_n(prog))))]),
        // a parameter that occurs nowhere but in the value / the key of a map entry
        "map-n-value" => DataE::Map(vec![(DataE::Int(IntE::Lit(1)), DataE::Int(ensure_n(prog)))]),
        "map-n-key" => DataE::Map(vec![(DataE::Int(ensure_n(prog)), DataE::Bytes(BytesE::Str("v".into())))]),
        "bytes" => DataE::Bytes(BytesE::Hex(vec![0xCA, 0xFE])),
        "bool" => DataE::Bool(true),
        "unit" => DataE::Unit,
        "record" => {
            ensure_types(prog);
            DataE::Rec {
                ty: 0,
                fields: vec![(0, q()), (1, DataE::Bytes(BytesE::Str("me".into()))), (2, DataE::List(vec![DataE::Int(IntE::Lit(1)), q()]))],
                spread: None,
            }
        }
        "record-out-of-order" => {
            ensure_types(prog);
            DataE::Rec {
                ty: 0,
                fields: vec![(2, DataE::List(vec![])), (0, DataE::Int(IntE::Lit(11))), (1, DataE::Bytes(BytesE::Hex(vec![0xAA, 0xBB])))],
                spread: None,
            }
        }
        "variant" => {
            ensure_types(prog);
            DataE::Var { ty: 1, case: 1, fields: vec![(1, DataE::Bytes(BytesE::Hex(vec![0xCC]))), (0, q())] }
        }
        "variant-unit-case" => {
            ensure_types(prog);
            DataE::Var { ty: 1, case: 2, fields: vec![(0, DataE::Int(IntE::Lit(-5)))] }
        }
        "list" => DataE::List(vec![q(), DataE::Int(IntE::Lit(0)), DataE::Int(IntE::Lit(-1))]),
        "map" => DataE::Map(vec![(DataE::Int(IntE::Lit(1)), DataE::Bytes(BytesE::Str("one".into()))), (DataE::Int(IntE::Lit(2)), DataE::Bytes(BytesE::Hex(vec![2])))]),
        "spread" => {
            ensure_datum_input(prog);
            DataE::Rec { ty: 0, fields: vec![(0, DataE::Int(IntE::Add(Box::new(IntE::InputField("st".into(), 0, "counter".into())), Box::new(IntE::Lit(1)))))], spread: Some("st".into()) }
        }
        "spread-all" => {
            ensure_datum_input(prog);
            DataE::Rec { ty: 0, fields: vec![], spread: Some("st".into()) }
        }
        "input-datum" => {
            ensure_datum_input(prog);
            DataE::InputDatum("st".into())
        }
        "input-field" => {
            ensure_datum_input(prog);
            DataE::Bytes(BytesE::InputField("st".into(), 1, "owner".into()))
        }
        "input-list-item" => {
            ensure_datum_input(prog);
            DataE::List(vec![
                DataE::Int(IntE::InputListItem("st".into(), 2, "limits".into(), Box::new(IntE::Lit(0)))),
                DataE::Int(IntE::InputListItem("st".into(), 2, "limits".into(), Box::new(IntE::Lit(1)))),
            ])
        }
        // the index is a plain name (a local here, the parameter q cannot be an index): `st.limits[ix]` has the very
        // shape of a property access `a.b` in the AST
        "input-list-item-by-name" => {
            ensure_datum_input(prog);
            if !prog.locals.iter().any(|(n, _)| n == "ix") {
                prog.locals.push(("ix".into(), LocalE::Int(IntE::Lit(1))));
            }
            DataE::List(vec![DataE::Int(IntE::InputListItem("st".into(), 2, "limits".into(), Box::new(IntE::Local("ix".into()))))])
        }
        // strings with strings, bytes with bytes (the two kinds are distinct values of the IR)
        "concat" => DataE::List(vec![
            DataE::Bytes(BytesE::Concat(Box::new(BytesE::Str("ab".into())), Box::new(BytesE::Concat(Box::new(BytesE::Str("c".into())), Box::new(BytesE::Str("d".into())))))),
            DataE::Bytes(BytesE::Concat(Box::new(BytesE::Hex(vec![0xAB])), Box::new(BytesE::Hex(vec![0xCD, 0xEF])))),
        ]),
        _ => DataE::List(vec![DataE::List(vec![q()]), DataE::List(vec![])]),
    })
}

fn gen_pay_amount(g: &mut Gen, point: &str, prog: &mut GProg) -> AssetE {
    let alts = ["ada(q)", "ada(int)", "ada+token", "anyasset", "ada+ada", "local", "paren-sum", "token-only", "ada(n)", "anyasset-n", "ada(q-n)", "anyasset-param-class", "ada(input-field)", "anyasset(input-fields)"];
    let q = || IntE::Param("q".into());
    match alts[g.pick(point, &alts)] {
        // the asset class itself comes from parameters: the sum cannot be folded before they are applied
        "anyasset-param-class" => {
            for n in ["pol", "tname"] {
                if !prog.params.iter().any(|(x, _)| x == n) {
                    prog.params.push((n.into(), ParamTy::Bytes));
                }
            }
            // literal amounts on purpose: only the class is open, so a premature fold has everything it looks at
            AssetE::Add(
                Box::new(AssetE::Ada(IntE::Lit(1300000))),
                Box::new(AssetE::AnyAsset(BytesE::Param("pol".into()), BytesE::Param("tname".into()), IntE::Lit(2))),
            )
        }
        // quantities and names read from the datum of another input, inside an asset constructor (the arguments
        // of a constructor are data, whatever the position the constructor itself sits in)
        "ada(input-field)" => {
            ensure_datum_input(prog);
            AssetE::Add(Box::new(AssetE::Ada(q())), Box::new(AssetE::Ada(IntE::InputField("st".into(), 0, "counter".into()))))
        }
        "anyasset(input-fields)" => {
            ensure_datum_input(prog);
            AssetE::Add(
                Box::new(AssetE::Ada(q())),
                Box::new(AssetE::AnyAsset(BytesE::Hex(POLICY_A.to_vec()), BytesE::InputField("st".into(), 1, "owner".into()), IntE::InputListItem("st".into(), 2, "limits".into(), Box::new(IntE::Lit(0))))),
            )
        }
        "ada(q)" => AssetE::Ada(q()),
        "ada(int)" => AssetE::Ada(int_leaf(g, &format!("{point}.int"), prog)),
        "ada+token" => {
            let a = ensure_asset_def(prog);
            AssetE::Add(Box::new(AssetE::Ada(q())), Box::new(AssetE::Tok(a, IntE::Lit(3))))
        }
        "anyasset" => AssetE::Add(
            Box::new(AssetE::Ada(q())),
            Box::new(AssetE::AnyAsset(BytesE::Hex(POLICY_A.to_vec()), BytesE::Str("GOLD".into()), IntE::Lit(2))),
        ),
        "ada+ada" => AssetE::Add(Box::new(AssetE::Ada(q())), Box::new(AssetE::Ada(IntE::Lit(5)))),
        "local" => {
            if !prog.locals.iter().any(|(n, _)| n == "pay") {
                prog.locals.push(("pay".into(), LocalE::Asset(AssetE::Ada(IntE::Add(Box::new(q()), Box::new(IntE::Lit(1)))))));
            }
            AssetE::Local("pay".into())
        }
        "paren-sum" => AssetE::Paren(Box::new(AssetE::Add(Box::new(AssetE::Ada(IntE::Lit(1000000))), Box::new(AssetE::Ada(q()))))),
        "ada(n)" => AssetE::Ada(IntE::Add(Box::new(IntE::Lit(1000000)), Box::new(ensure_n(prog)))),
        "anyasset-n" => AssetE::Add(
            Box::new(AssetE::Ada(IntE::Lit(1500000))),
            Box::new(AssetE::AnyAsset(BytesE::Hex(POLICY_A.to_vec()), BytesE::Str("GOLD".into()), ensure_n(prog))),
        ),
        "ada(q-n)" => AssetE::Ada(IntE::Sub(Box::new(q()), Box::new(ensure_n(prog)))),
        _ => {
            let a = ensure_asset_def(prog);
            AssetE::Add(Box::new(AssetE::Tok(a, IntE::Lit(1))), Box::new(AssetE::Ada(IntE::Lit(1200000))))
        }
    }
}

/// change = everything consumed minus everything else produced, written in one of several shapes
fn gen_change(g: &mut Gen, pay: &AssetE, inputs: &[String], minted: Option<&AssetE>, burned: Option<&AssetE>) -> AssetE {
    let alts = ["a-pay-fees", "a-(pay+fees)", "a-fees-pay", "(a-pay)-fees", "a-fees+!pay"];
    let shape = alts[g.pick("change.shape", &alts)];
    let mut total = AssetE::Input(inputs[0].clone());
    for i in &inputs[1..] {
        total = AssetE::Add(Box::new(total), Box::new(AssetE::Input(i.clone())));
    }
    if let Some(m) = minted {
        total = AssetE::Add(Box::new(total), Box::new(m.clone()));
    }
    let pay = pay.clone();
    let mut out = match shape {
        "a-pay-fees" => AssetE::Sub(Box::new(AssetE::Sub(Box::new(total), Box::new(paren_if_sum(pay)))), Box::new(AssetE::Fees)),
        "a-(pay+fees)" => AssetE::Sub(Box::new(total), Box::new(AssetE::Paren(Box::new(AssetE::Add(Box::new(pay), Box::new(AssetE::Fees)))))),
        "a-fees-pay" => AssetE::Sub(Box::new(AssetE::Sub(Box::new(total), Box::new(AssetE::Fees))), Box::new(paren_if_sum(pay))),
        // the payment taken off by adding its negation
        "a-fees+!pay" => AssetE::Add(Box::new(AssetE::Sub(Box::new(total), Box::new(AssetE::Fees))), Box::new(AssetE::Neg(Box::new(paren_if_sum(pay))))),
        _ => AssetE::Sub(Box::new(AssetE::Paren(Box::new(AssetE::Sub(Box::new(total), Box::new(paren_if_sum(pay)))))), Box::new(AssetE::Fees)),
    };
    if let Some(b) = burned {
        out = AssetE::Sub(Box::new(out), Box::new(paren_if_sum(b.clone())));
    }
    out
}

fn paren_if_sum(e: AssetE) -> AssetE {
    match e {
        AssetE::Add(..) | AssetE::Sub(..) => AssetE::Paren(Box::new(e)),
        x => x,
    }
}

/// The generator: alternative 0 everywhere gives the plain transfer.
pub fn generate(c: &mut Chooser) -> Scenario {
    let mut g = Gen { c, labels: vec![] };
    let mut prog = GProg::default();
    let spelling = g.pick("party-spelling", &["Capitalised", "lower", "UPPER"]);
    let (sender, receiver) = match spelling {
        0 => ("Sender", "Receiver"),
        1 => ("sender", "receiver"),
        _ => ("SENDER", "RECEIVER"),
    };
    prog.parties = vec![sender.to_string(), receiver.to_string()];
    prog.params = vec![("q".into(), ParamTy::Int)];
    let layout = g.pick("layout", &LAYOUTS);
    let network = g.pick("network", &["testnet", "mainnet"]) as u8;
    let fee = [170_000u64, 0, 1_234_567][g.pick("fee", &["170000", "0", "1234567"])];
    let q = [2_000_000i128, 1, 0][g.pick("q", &["2000000", "1", "0"])];
    let utxo = g.pick("utxo", &["5ada", "2ada+7gold", "50ada+1gold", "two-utxos"]);

    // main input
    let many = utxo == 3 || g.pick("input.kind", &["single", "many"]) == 1;
    let min_amount = match g.pick("input.min_amount", &["ada(q)", "ada(q)+fees", "none", "token"]) {
        0 => Some(AssetE::Ada(IntE::Param("q".into()))),
        1 => Some(AssetE::Add(Box::new(AssetE::Ada(IntE::Param("q".into()))), Box::new(AssetE::Fees))),
        2 => None,
        _ => {
            let a = ensure_asset_def(&mut prog);
            Some(AssetE::Tok(a, IntE::Lit(1)))
        }
    };
    let from = match g.pick("input.from", &["party", "policy"]) {
        0 => AddrE::Party(sender.to_string()),
        _ => AddrE::Policy(ensure_policy(&mut prog)),
    };
    let input_redeemer = match g.pick("input.redeemer", &["none", "unit", "variant"]) {
        0 => None,
        1 => Some(DataE::Unit),
        _ => {
            ensure_types(&mut prog);
            Some(DataE::Var { ty: 1, case: 1, fields: vec![(0, DataE::Int(IntE::Param("q".into()))), (1, DataE::Bytes(BytesE::Hex(vec![1])))] })
        }
    };
    prog.inputs.push(GInput { name: "a".into(), many, from: Some(from), min_amount, r#ref: None, redeemer: input_redeemer, datum_is: None });

    // payment output
    let pay = gen_pay_amount(&mut g, "pay.amount", &mut prog);
    let pay_to = match g.pick("pay.to", &["party", "policy", "hex", "hex-in-a-string", "bech32-in-a-string"]) {
        0 => AddrE::Party(receiver.to_string()),
        1 => AddrE::Policy(ensure_policy(&mut prog)),
        3 => AddrE::HexString(crate::common::pipeline::enterprise_address(9, network)),
        4 => AddrE::Bech32String(crate::common::pipeline::enterprise_address(9, network)),
        _ => AddrE::Hex(crate::common::pipeline::enterprise_address(9, network)),
    };
    // change output first so that `ensure_datum_input` can extend it
    prog.outputs.push(GOutput { name: None, optional: false, to: pay_to, amount: pay.clone(), datum: None });
    prog.outputs.push(GOutput { name: None, optional: false, to: AddrE::Party(sender.to_string()), amount: AssetE::Fees, datum: None });

    // mint / burn
    let mint_kind = g.pick("mint", &["none", "static-asset", "anyasset", "mint+burn", "two-mints", "anyasset-n", "burn-n", "same-asset-twice-n", "mint-n+burn-n-same-asset", "anyasset-policy-by-name", "static-asset-input-field"]);
    let (minted, burned): (Option<AssetE>, Option<AssetE>) = match mint_kind {
        0 => (None, None),
        1 => {
            let a = ensure_asset_def(&mut prog);
            let m = AssetE::Tok(a, IntE::Lit(10));
            prog.mints.push(GMint { amount: m.clone(), redeemer: DataE::Unit, no_redeemer: false });
            (Some(m), None)
        }
        2 => {
            let m = AssetE::AnyAsset(BytesE::Hex(POLICY_B.to_vec()), BytesE::Str("SILVER".into()), IntE::Param("q".into()));
            prog.mints.push(GMint { amount: m.clone(), redeemer: DataE::Int(IntE::Lit(1)), no_redeemer: false });
            (Some(m), None)
        }
        // the argument of an asset call is data wherever the call sits: here it reads a field of an input's datum
        10 => {
            let a = ensure_asset_def(&mut prog);
            ensure_datum_input(&mut prog);
            let m = AssetE::Tok(a, IntE::InputField("st".into(), 0, "counter".into()));
            prog.mints.push(GMint { amount: m.clone(), redeemer: DataE::Unit, no_redeemer: false });
            (Some(m), None)
        }
        // the policy of the minted asset given by the name of a `policy` definition (the minted amount also appears
        // in the change output's arithmetic)
        9 => {
            let pol = ensure_policy(&mut prog);
            let (name, hash) = prog.policies[pol].clone();
            let m = AssetE::AnyAsset(BytesE::PolicyName(name, hash), BytesE::Str("SILVER".into()), IntE::Lit(5));
            prog.mints.push(GMint { amount: m.clone(), redeemer: DataE::Unit, no_redeemer: false });
            (Some(m), None)
        }
        3 => {
            let a = ensure_asset_def(&mut prog);
            let m = AssetE::Tok(a, IntE::Lit(10));
            let b = AssetE::Tok(a, IntE::Lit(4));
            prog.mints.push(GMint { amount: m.clone(), redeemer: DataE::Unit, no_redeemer: false });
            prog.burns.push(GMint { amount: b.clone(), redeemer: DataE::Unit, no_redeemer: false });
            (Some(m), Some(b))
        }
        5 => {
            let m = AssetE::AnyAsset(BytesE::Hex(POLICY_B.to_vec()), BytesE::Str("SILVER".into()), ensure_n(&mut prog));
            prog.mints.push(GMint { amount: m.clone(), redeemer: DataE::Unit, no_redeemer: false });
            (Some(m), None)
        }
        6 => {
            let a = ensure_asset_def(&mut prog);
            let b = AssetE::Tok(a, ensure_n(&mut prog));
            prog.burns.push(GMint { amount: b.clone(), redeemer: DataE::Unit, no_redeemer: false });
            (None, Some(b))
        }
        // two blocks on one asset class: the field holds their sum (which can leave the field's range although each
        // amount fits) or their difference
        7 => {
            let a = ensure_asset_def(&mut prog);
            let m1 = AssetE::Tok(a, ensure_n(&mut prog));
            let m2 = AssetE::Tok(a, ensure_n(&mut prog));
            prog.mints.push(GMint { amount: m1.clone(), redeemer: DataE::Unit, no_redeemer: true });
            prog.mints.push(GMint { amount: m2.clone(), redeemer: DataE::Unit, no_redeemer: true });
            (Some(AssetE::Add(Box::new(m1), Box::new(m2))), None)
        }
        8 => {
            let a = ensure_asset_def(&mut prog);
            let m = AssetE::Tok(a, ensure_n(&mut prog));
            let b = AssetE::Tok(a, IntE::Sub(Box::new(ensure_n(&mut prog)), Box::new(IntE::Lit(4))));
            prog.mints.push(GMint { amount: m.clone(), redeemer: DataE::Unit, no_redeemer: false });
            prog.burns.push(GMint { amount: b.clone(), redeemer: DataE::Unit, no_redeemer: false });
            (Some(m), Some(b))
        }
        _ => {
            let a = ensure_asset_def(&mut prog);
            let m1 = AssetE::Tok(a, IntE::Lit(2));
            let m2 = AssetE::AnyAsset(BytesE::Hex(POLICY_B.to_vec()), BytesE::Str("SILVER".into()), IntE::Lit(5));
            prog.mints.push(GMint { amount: m1.clone(), redeemer: DataE::Unit, no_redeemer: false });
            prog.mints.push(GMint { amount: m2.clone(), redeemer: DataE::Unit, no_redeemer: false });
            (Some(AssetE::Add(Box::new(m1), Box::new(m2))), None)
        }
    };

    let change = gen_change(&mut g, &pay, &["a".to_string()], minted.as_ref(), burned.as_ref());
    prog.outputs[1].amount = change;
    // a datum input that an amount expression brought in before the outputs existed: its value goes back to the sender
    // like that of one brought in by a datum (ensure_datum_input adds it to the last output when there is one)
    fn mentions_input(e: &AssetE, name: &str) -> bool {
        match e {
            AssetE::Input(n) => n == name,
            AssetE::Add(a, b) | AssetE::Sub(a, b) => mentions_input(a, name) || mentions_input(b, name),
            AssetE::Paren(a) | AssetE::Neg(a) => mentions_input(a, name),
            _ => false,
        }
    }
    if prog.inputs.iter().any(|i| i.name == "st") && !mentions_input(&prog.outputs[1].amount, "st") {
        prog.outputs[1].amount = AssetE::Add(Box::new(prog.outputs[1].amount.clone()), Box::new(AssetE::Input("st".into())));
    }

    // datums
    prog.outputs[0].datum = gen_datum(&mut g, "pay.datum", &mut prog);
    prog.outputs[1].datum = gen_datum(&mut g, "change.datum", &mut prog);
    if g.pick("outputs.named", &["anonymous", "named"]) == 1 {
        prog.outputs[0].name = Some("payment".into());
        prog.outputs[1].name = Some("change".into());
    }

    // extra output
    match g.pick("extra-output", &["none", "optional-empty", "optional-paid", "third", "optional-tokens-only"]) {
        0 => {}
        1 => prog.outputs.push(GOutput { name: None, optional: true, to: AddrE::Party(receiver.to_string()), amount: AssetE::Ada(IntE::Lit(0)), datum: None }),
        2 => {
            prog.outputs.insert(1, GOutput { name: None, optional: true, to: AddrE::Party(receiver.to_string()), amount: AssetE::Ada(IntE::Lit(1000000)), datum: None });
            let last = prog.outputs.len() - 1;
            prog.outputs[last].amount = AssetE::Sub(Box::new(prog.outputs[last].amount.clone()), Box::new(AssetE::Ada(IntE::Lit(1000000))));
        }
        // an optional output that carries native tokens and no lovelace is not empty; the tokens come from a mint of
        // their own, so the transaction balances only if the output is kept
        4 => {
            let m = AssetE::AnyAsset(BytesE::Hex(POLICY_C.to_vec()), BytesE::Str("BRONZE".into()), IntE::Lit(3));
            prog.mints.push(GMint { amount: m.clone(), redeemer: DataE::Unit, no_redeemer: false });
            prog.outputs.insert(1, GOutput { name: None, optional: true, to: AddrE::Party(receiver.to_string()), amount: m, datum: None });
        }
        _ => {
            prog.outputs.insert(0, GOutput { name: None, optional: false, to: AddrE::Party(receiver.to_string()), amount: AssetE::Ada(IntE::Lit(1111111)), datum: Some(DataE::Int(IntE::Lit(3))) });
            let last = prog.outputs.len() - 1;
            prog.outputs[last].amount = AssetE::Sub(Box::new(prog.outputs[last].amount.clone()), Box::new(AssetE::Ada(IntE::Lit(1111111))));
        }
    }

    // validity
    match g.pick("validity", &["none", "until-lit", "since+until", "until-param", "tip+offset", "time_to_slot", "slot_to_time-roundtrip", "until-n", "since-n", "time_to_slot-n", "slot_to_time-before-tip", "slot_to_time-n"]) {
        0 => {}
        1 => prog.until = Some(IntE::Lit(90_000)),
        2 => {
            prog.since = Some(IntE::Lit(10));
            prog.until = Some(IntE::Add(Box::new(IntE::Lit(10)), Box::new(IntE::Lit(600))));
        }
        3 => prog.until = Some(IntE::Add(Box::new(IntE::Param("q".into())), Box::new(IntE::Lit(1)))),
        4 => {
            prog.since = Some(IntE::TipSlot);
            prog.until = Some(IntE::Add(Box::new(IntE::TipSlot), Box::new(IntE::Lit(600))));
        }
        5 => prog.until = Some(IntE::TimeToSlot(Box::new(IntE::Lit(1_700_000_123_456)))),
        7 => prog.until = Some(ensure_n(&mut prog)),
        8 => prog.since = Some(IntE::Sub(Box::new(ensure_n(&mut prog)), Box::new(IntE::Lit(1)))),
        9 => prog.until = Some(IntE::TimeToSlot(Box::new(IntE::Add(Box::new(IntE::Lit(1_700_000_000_000)), Box::new(ensure_n(&mut prog)))))),
        // a slot before the tip has an earlier time, not the tip's
        10 => prog.until = Some(IntE::TimeToSlot(Box::new(IntE::SlotToTime(Box::new(IntE::Lit(1234)))))),
        11 => prog.until = Some(IntE::TimeToSlot(Box::new(IntE::SlotToTime(Box::new(ensure_n(&mut prog)))))),
        _ => prog.until = Some(IntE::TimeToSlot(Box::new(IntE::SlotToTime(Box::new(IntE::Lit(7777)))))),
    }

    // signers
    match g.pick("signers", &["none", "party", "hash", "party+hash"]) {
        0 => {}
        1 => prog.signers = vec![SignerE::Party(sender.to_string())],
        2 => prog.signers = vec![SignerE::Hash(vec![0x0F; 28])],
        _ => prog.signers = vec![SignerE::Party(receiver.to_string()), SignerE::Hash(vec![0x0F; 28])],
    }

    // metadata
    match g.pick("metadata", &["none", "int", "string", "bytes-param", "two", "int-expr", "int-n", "int-negated"]) {
        0 => {}
        1 => prog.metadata = vec![(IntE::Lit(674), MetaE::Int(IntE::Lit(42)))],
        7 => prog.metadata = vec![(IntE::Lit(674), MetaE::Int(IntE::Neg(Box::new(IntE::Param("q".into())))))],
        2 => prog.metadata = vec![(IntE::Lit(674), MetaE::Str("hello metadata".into()))],
        3 => {
            prog.params.push(("memo".into(), ParamTy::Bytes));
            prog.metadata = vec![(IntE::Lit(1), MetaE::Bytes(BytesE::Param("memo".into())))];
        }
        4 => prog.metadata = vec![(IntE::Lit(2), MetaE::Str("b".into())), (IntE::Lit(1), MetaE::Int(IntE::Param("q".into())))],
        5 => prog.metadata = vec![(IntE::Lit(674), MetaE::Int(IntE::Sub(Box::new(IntE::Lit(0)), Box::new(IntE::Lit(9)))))],
        _ => {
            let n = ensure_n(&mut prog);
            prog.metadata = vec![(IntE::Lit(7), MetaE::Int(n))];
        }
    }

    // references / collateral
    match g.pick("reference", &["none", "literal", "param", "literal-index-65539", "literal-index-beyond-32-bits", "two-outputs-of-one-transaction"]) {
        0 => {}
        // the field is a set of (transaction, index) pairs: two outputs of one transaction are two members
        5 => {
            prog.references.push(("refscript".into(), RefE::Lit(vec![0xEE; 32], 2)));
            prog.references.push(("refdata".into(), RefE::Lit(vec![0xEE; 32], 5)));
        }
        1 => prog.references.push(("refscript".into(), RefE::Lit(vec![0xEE; 32], 2))),
        // an output index is a full integer; one the IR cannot hold (32 bits) has to be refused, not cut down
        3 => prog.references.push(("refscript".into(), RefE::Lit(vec![0xEE; 32], 65539))),
        4 => prog.references.push(("refscript".into(), RefE::Lit(vec![0xEE; 32], (1u64 << 32) + 3))),
        _ => {
            prog.params.push(("rin".into(), ParamTy::UtxoRef));
            prog.references.push(("refscript".into(), RefE::Param("rin".into())));
        }
    }
    match g.pick("collateral", &["none", "by-ref", "from-party"]) {
        0 => {}
        1 => prog.collateral = Some(GCollateral { from: None, min_amount: None, r#ref: Some(RefE::Lit(vec![0xC0; 32], 0)) }),
        _ => prog.collateral = Some(GCollateral { from: Some(AddrE::Party(sender.to_string())), min_amount: Some(AssetE::Ada(IntE::Lit(5_000_000))), r#ref: None }),
    }

    // chain-specific directives that move value: a withdrawal adds to what is consumed, a donation to what is spent
    match g.pick("directive", &["none", "withdrawal", "withdrawal-n", "donation", "donation-n", "withdrawal+donation", "withdrawal-no-redeemer"]) {
        0 => {}
        k => {
            let last = prog.outputs.len() - 1;
            if k == 6 {
                prog.withdrawal_no_redeemer = true;
            }
            let w = match k {
                1 | 5 | 6 => Some(IntE::Lit(250_000)),
                2 => Some(ensure_n(&mut prog)),
                _ => None,
            };
            let d = match k {
                3 | 5 => Some(IntE::Lit(70_000)),
                4 => Some(ensure_n(&mut prog)),
                _ => None,
            };
            if let Some(w) = w {
                prog.withdrawals.push((AddrE::Party(sender.to_string()), w.clone()));
                prog.outputs[last].amount = AssetE::Add(Box::new(prog.outputs[last].amount.clone()), Box::new(AssetE::Ada(w)));
            }
            if let Some(d) = d {
                prog.donation = Some(d.clone());
                prog.outputs[last].amount = AssetE::Sub(Box::new(prog.outputs[last].amount.clone()), Box::new(AssetE::Ada(d)));
            }
        }
    }

    // a published script: one more output; its amount a literal (taken off the change), or what is left of the input
    // (then the change output gets the literal), with or without a datum
    match g.pick("publish", &["none", "literal-amount", "amount-from-input", "with-datum"]) {
        0 => {}
        k => {
            let last = prog.outputs.len() - 1;
            let lit = AssetE::Ada(IntE::Lit(1_400_000));
            let rest = AssetE::Sub(Box::new(prog.outputs[last].amount.clone()), Box::new(lit.clone()));
            let (change, published) = if k == 2 { (lit, rest) } else { (rest, lit) };
            prog.outputs[last].amount = change;
            prog.publishes.push(GPublish {
                to: AddrE::Party(receiver.to_string()),
                amount: published,
                datum: if k == 3 { Some(DataE::Int(IntE::Param("q".into()))) } else { None },
                version: if k == 2 { 2 } else { 3 },
                script: vec![0x4E, 0x4D, 0x01, 0x00, 0x00, 0x33],
            });
        }
    }

    // extra unused definitions and block order
    if g.pick("unused-defs", &["none", "env+types+policy"]) == 1 {
        ensure_env(&mut prog);
        ensure_types(&mut prog);
        ensure_policy(&mut prog);
        ensure_asset_def(&mut prog);
    }
    prog.body_rotation = g.pick("block-order", &["declarations-then-outputs", "outputs-first", "reversed-then-outputs", "interleaved"]);

    let labels = g.labels.clone();
    Scenario { prog, layout, network, fee, q, n: 9, extra_lovelace: 0, utxo, labels }
}

/// distinct sources (default layout) of every generator program with <= k deviations, in enumeration order
/// (used by C17 / C18, which only need many feature-rich, accepted programs)
pub fn distinct_sources(k: usize) -> Vec<String> {
    let mut seen = std::collections::HashSet::new();
    let mut out = vec![];
    let mut gen = |c: &mut Chooser| generate(c);
    crate::engine::dbx::explore(k, &mut gen, &mut |_choices, _devs, sc| {
        let src = render(&sc.prog, 0);
        if seen.insert(src.clone()) {
            out.push(src);
        }
    });
    out
}
