//! Enumerates TIR trees "a client may send": every variant of every IR enum with a probe in every child
//! slot (one-level contexts), every two-level nesting of those, placed in every field of a `Tx`.

use crate::common::tirb;
use std::collections::HashMap;
use tx3_tir::model::core::{Type, UtxoRef};
use tx3_tir::model::v1beta0::*;

#[derive(Debug, Clone, Copy, PartialEq, Eq)]
pub enum Kind {
    Num,
    Bytes,
    Assets,
    Utxos,
    Address,
    Refs,
    Any,
}

#[derive(Clone)]
pub struct Ctx {
    pub label: &'static str,
    /// what the hole is expected to hold for the surrounding node to be meaningful
    pub hole: Kind,
    /// what the whole node evaluates to
    pub yields: Kind,
    pub wrap: fn(Expression) -> Expression,
}

fn n(x: i128) -> Expression {
    Expression::Number(x)
}
fn b() -> Expression {
    Expression::Bytes(vec![0xAA; 28])
}
fn assets1() -> Expression {
    Expression::Assets(vec![tirb::lovelace(3)])
}
fn q(address: Expression, min_amount: Expression, r#ref: Expression) -> Expression {
    Expression::EvalParam(Box::new(Param::ExpectInput(
        "ctxq".into(),
        InputQuery { address, min_amount, r#ref, many: false, collateral: false },
    )))
}

pub fn contexts() -> Vec<Ctx> {
    vec![
        Ctx { label: "List[hole]", hole: Kind::Any, yields: Kind::Any, wrap: |h| Expression::List(vec![h]) },
        Ctx { label: "List[c,hole]", hole: Kind::Any, yields: Kind::Any, wrap: |h| Expression::List(vec![n(1), h]) },
        Ctx { label: "Map[(hole,c)]", hole: Kind::Any, yields: Kind::Any, wrap: |h| Expression::Map(vec![(h, n(1))]) },
        Ctx { label: "Map[(c,hole)]", hole: Kind::Any, yields: Kind::Any, wrap: |h| Expression::Map(vec![(n(1), h)]) },
        Ctx { label: "Tuple(hole,c)", hole: Kind::Any, yields: Kind::Any, wrap: |h| Expression::Tuple(Box::new((h, n(1)))) },
        Ctx { label: "Tuple(c,hole)", hole: Kind::Any, yields: Kind::Any, wrap: |h| Expression::Tuple(Box::new((n(1), h))) },
        Ctx { label: "Struct[hole]", hole: Kind::Any, yields: Kind::Any, wrap: |h| Expression::Struct(StructExpr { constructor: 0, fields: vec![h] }) },
        Ctx { label: "Struct[c,hole]", hole: Kind::Any, yields: Kind::Any, wrap: |h| Expression::Struct(StructExpr { constructor: 1, fields: vec![n(1), h] }) },
        Ctx { label: "Asset.policy", hole: Kind::Bytes, yields: Kind::Assets, wrap: |h| Expression::Assets(vec![AssetExpr { policy: h, asset_name: Expression::Bytes(b"T".to_vec()), amount: n(2) }]) },
        Ctx { label: "Asset.name", hole: Kind::Bytes, yields: Kind::Assets, wrap: |h| Expression::Assets(vec![AssetExpr { policy: b(), asset_name: h, amount: n(2) }]) },
        Ctx { label: "Asset.amount", hole: Kind::Num, yields: Kind::Assets, wrap: |h| Expression::Assets(vec![AssetExpr { policy: Expression::None, asset_name: Expression::None, amount: h }]) },
        Ctx { label: "Param::Set", hole: Kind::Any, yields: Kind::Any, wrap: |h| Expression::EvalParam(Box::new(Param::Set(h))) },
        Ctx { label: "Query.address", hole: Kind::Address, yields: Kind::Utxos, wrap: |h| q(h, Expression::None, Expression::None) },
        Ctx { label: "Query.min_amount", hole: Kind::Assets, yields: Kind::Utxos, wrap: |h| q(Expression::Address(crate::common::pipeline::base_address(1, 0)), h, Expression::None) },
        Ctx { label: "Query.ref", hole: Kind::Refs, yields: Kind::Utxos, wrap: |h| q(Expression::None, Expression::None, h) },
        Ctx { label: "NoOp", hole: Kind::Any, yields: Kind::Any, wrap: |h| tirb::builtin(BuiltInOp::NoOp(h)) },
        Ctx { label: "Add(hole,c)", hole: Kind::Num, yields: Kind::Num, wrap: |h| tirb::builtin(BuiltInOp::Add(h, n(1))) },
        Ctx { label: "Add(c,hole)", hole: Kind::Num, yields: Kind::Num, wrap: |h| tirb::builtin(BuiltInOp::Add(n(1), h)) },
        Ctx { label: "Sub(hole,c)", hole: Kind::Num, yields: Kind::Num, wrap: |h| tirb::builtin(BuiltInOp::Sub(h, n(1))) },
        Ctx { label: "Sub(c,hole)", hole: Kind::Num, yields: Kind::Num, wrap: |h| tirb::builtin(BuiltInOp::Sub(n(9), h)) },
        Ctx { label: "AddAssets(hole,c)", hole: Kind::Assets, yields: Kind::Assets, wrap: |h| tirb::builtin(BuiltInOp::Add(h, assets1())) },
        Ctx { label: "SubAssets(c,hole)", hole: Kind::Assets, yields: Kind::Assets, wrap: |h| tirb::builtin(BuiltInOp::Sub(assets1(), h)) },
        Ctx { label: "Concat(hole,c)", hole: Kind::Bytes, yields: Kind::Bytes, wrap: |h| tirb::builtin(BuiltInOp::Concat(h, Expression::Bytes(vec![1]))) },
        Ctx { label: "Concat(c,hole)", hole: Kind::Bytes, yields: Kind::Bytes, wrap: |h| tirb::builtin(BuiltInOp::Concat(Expression::Bytes(vec![1]), h)) },
        Ctx { label: "Negate", hole: Kind::Num, yields: Kind::Num, wrap: |h| tirb::builtin(BuiltInOp::Negate(h)) },
        Ctx { label: "Property(hole,c)", hole: Kind::Any, yields: Kind::Any, wrap: |h| tirb::builtin(BuiltInOp::Property(Expression::List(vec![h, n(4)]), n(0))) },
        Ctx { label: "Property(c,hole)", hole: Kind::Num, yields: Kind::Num, wrap: |h| tirb::builtin(BuiltInOp::Property(Expression::List(vec![n(7), n(8), n(9), n(10), n(11), n(12)]), h)) },
        Ctx { label: "PropertyStruct(c,hole)", hole: Kind::Num, yields: Kind::Num, wrap: |h| tirb::builtin(BuiltInOp::Property(Expression::Struct(StructExpr { constructor: 0, fields: vec![n(7), n(8)] }), h)) },
        Ctx { label: "PropertyTuple(c,hole)", hole: Kind::Num, yields: Kind::Num, wrap: |h| tirb::builtin(BuiltInOp::Property(Expression::Tuple(Box::new((n(7), n(8)))), h)) },
        Ctx { label: "PropertyMap(c,hole)", hole: Kind::Num, yields: Kind::Any, wrap: |h| tirb::builtin(BuiltInOp::Property(Expression::Map(vec![(n(0), n(7)), (n(5), n(8))]), h)) },
        Ctx { label: "PropertyUtxoDatum(c,hole)", hole: Kind::Num, yields: Kind::Any, wrap: |h| tirb::builtin(BuiltInOp::Property(tirb::coerce(Coerce::IntoDatum(Expression::UtxoSet([crate::props::c06::sample_utxo(0x2a)].into_iter().collect()))), h)) },
        Ctx { label: "BuildScriptAddress", hole: Kind::Bytes, yields: Kind::Address, wrap: |h| tirb::compiler_op(CompilerOp::BuildScriptAddress(h)) },
        Ctx { label: "ComputeMinUtxo", hole: Kind::Num, yields: Kind::Assets, wrap: |h| tirb::compiler_op(CompilerOp::ComputeMinUtxo(h)) },
        Ctx { label: "SlotToTime", hole: Kind::Num, yields: Kind::Num, wrap: |h| tirb::compiler_op(CompilerOp::ComputeSlotToTime(h)) },
        Ctx { label: "TimeToSlot", hole: Kind::Num, yields: Kind::Num, wrap: |h| tirb::compiler_op(CompilerOp::ComputeTimeToSlot(h)) },
        Ctx { label: "Coerce::NoOp", hole: Kind::Any, yields: Kind::Any, wrap: |h| tirb::coerce(Coerce::NoOp(h)) },
        Ctx { label: "Coerce::IntoAssets", hole: Kind::Utxos, yields: Kind::Assets, wrap: |h| tirb::coerce(Coerce::IntoAssets(h)) },
        Ctx { label: "Coerce::IntoDatum", hole: Kind::Utxos, yields: Kind::Any, wrap: |h| tirb::coerce(Coerce::IntoDatum(h)) },
        Ctx { label: "Coerce::IntoScript", hole: Kind::Utxos, yields: Kind::Bytes, wrap: |h| tirb::coerce(Coerce::IntoScript(h)) },
        Ctx { label: "AdHoc.data", hole: Kind::Any, yields: Kind::Any, wrap: |h| Expression::AdHocDirective(Box::new(AdHocDirective { name: "x".into(), data: HashMap::from([("k".to_string(), h)]) })) },
    ]
}

#[derive(Debug, Clone, Copy, PartialEq, Eq)]
pub enum Probe {
    Value,
    Query,
    Fees,
    QueryWithValue,
    TipSlot,
}

pub const PROBE_PARAM: &str = "probe_p";
pub const PROBE_QUERY: &str = "probe_q";

pub fn probe_expr(p: Probe, kind: Kind) -> Expression {
    let ty = match kind {
        Kind::Num | Kind::Any => Type::Int,
        Kind::Bytes => Type::Bytes,
        Kind::Address => Type::Address,
        Kind::Refs => Type::UtxoRef,
        Kind::Assets => Type::AnyAsset,
        Kind::Utxos => Type::Utxo,
    };
    let addr = Expression::Address(crate::common::pipeline::base_address(1, 0));
    match p {
        Probe::Value => tirb::param(PROBE_PARAM, ty),
        Probe::Fees => tirb::fees(),
        Probe::Query => tirb::query_input(
            PROBE_QUERY,
            InputQuery { address: addr, min_amount: Expression::None, r#ref: Expression::None, many: false, collateral: false },
        ),
        Probe::QueryWithValue => tirb::query_input(
            PROBE_QUERY,
            InputQuery {
                address: addr,
                min_amount: Expression::Assets(vec![AssetExpr { policy: Expression::None, asset_name: Expression::None, amount: tirb::param(PROBE_PARAM, Type::Int) }]),
                r#ref: Expression::None,
                many: false,
                collateral: false,
            },
        ),
        Probe::TipSlot => tirb::compiler_op(CompilerOp::ComputeTipSlot),
    }
}

pub const PLACEMENTS: [&str; 19] = [
    "fees",
    "references[0]",
    "inputs[0].utxos",
    "inputs[0].redeemer",
    "outputs[0].address",
    "outputs[0].datum",
    "outputs[0].amount",
    "validity.since",
    "validity.until",
    "mints[0].amount",
    "mints[0].redeemer",
    "burns[0].amount",
    "burns[0].redeemer",
    "adhoc[0].data",
    "collateral[0].utxos",
    "signers[0]",
    "metadata[0].key",
    "metadata[0].value",
    "outputs[1].amount",
];

/// A benign constant transaction with `e` placed in the given field.
pub fn place(placement: usize, e: Expression) -> Tx {
    let addr = Expression::Address(crate::common::pipeline::base_address(1, 0));
    let utxo = tirb::utxo(
        UtxoRef { txid: vec![9; 32], index: 0 },
        &crate::common::pipeline::base_address(1, 0),
        tx3_tir::model::assets::CanonicalAssets::from_naked_amount(5_000_000),
    );
    let set = Expression::UtxoSet([utxo].into_iter().collect());
    let lov = |x: i128| Expression::Assets(vec![tirb::lovelace(x)]);
    let mut tx = Tx {
        fees: lov(170_000),
        references: vec![Expression::UtxoRefs(vec![UtxoRef { txid: vec![8; 32], index: 1 }])],
        inputs: vec![Input { name: "base".into(), utxos: set.clone(), redeemer: Expression::None }],
        outputs: vec![
            Output { address: addr.clone(), datum: Expression::None, amount: lov(2_000_000), optional: false },
            Output { address: addr.clone(), datum: Expression::None, amount: lov(1_000_000), optional: false },
        ],
        validity: Some(Validity { since: n(10), until: n(20) }),
        mints: vec![Mint { amount: Expression::Assets(vec![tirb::token(&[0x31; 28], b"M", 4)]), redeemer: Expression::None }],
        burns: vec![Mint { amount: Expression::Assets(vec![tirb::token(&[0x32; 28], b"B", 1)]), redeemer: Expression::None }],
        // (beside members that were left out: an absent member is a member)
        adhoc: vec![AdHocDirective { name: "custom".into(), data: HashMap::from([("k".to_string(), n(1)), ("absent".to_string(), Expression::None), ("zz_absent".to_string(), Expression::None)]) }],
        collateral: vec![Collateral { utxos: set.clone() }],
        signers: Some(Signers { signers: vec![Expression::Bytes(vec![0x41; 28])] }),
        metadata: vec![Metadata { key: n(1), value: Expression::String("v".into()) }],
    };
    match PLACEMENTS[placement] {
        "fees" => tx.fees = e,
        "references[0]" => tx.references[0] = e,
        "inputs[0].utxos" => tx.inputs[0].utxos = e,
        "inputs[0].redeemer" => tx.inputs[0].redeemer = e,
        "outputs[0].address" => tx.outputs[0].address = e,
        "outputs[0].datum" => tx.outputs[0].datum = e,
        "outputs[0].amount" => tx.outputs[0].amount = e,
        "outputs[1].amount" => tx.outputs[1].amount = e,
        "validity.since" => tx.validity.as_mut().unwrap().since = e,
        "validity.until" => tx.validity.as_mut().unwrap().until = e,
        "mints[0].amount" => tx.mints[0].amount = e,
        "mints[0].redeemer" => tx.mints[0].redeemer = e,
        "burns[0].amount" => tx.burns[0].amount = e,
        "burns[0].redeemer" => tx.burns[0].redeemer = e,
        "adhoc[0].data" => {
            tx.adhoc[0].data.insert("k".into(), e);
        }
        "collateral[0].utxos" => tx.collateral[0].utxos = e,
        "signers[0]" => tx.signers.as_mut().unwrap().signers[0] = e,
        "metadata[0].key" => tx.metadata[0].key = e,
        "metadata[0].value" => tx.metadata[0].value = e,
        _ => unreachable!(),
    }
    tx
}

/// what the field a placement fills is expected to hold
pub fn placement_kind(placement: usize) -> Kind {
    match PLACEMENTS[placement] {
        "fees" | "outputs[0].amount" | "outputs[1].amount" | "mints[0].amount" | "burns[0].amount" => Kind::Assets,
        "references[0]" => Kind::Refs,
        "inputs[0].utxos" | "collateral[0].utxos" => Kind::Utxos,
        "outputs[0].address" => Kind::Address,
        "validity.since" | "validity.until" | "metadata[0].key" => Kind::Num,
        "signers[0]" => Kind::Bytes,
        _ => Kind::Any,
    }
}

/// one tree: an optional outer context around an optional inner context around the probe
#[derive(Debug, Clone, Copy, PartialEq, Eq)]
pub struct TreeId {
    pub outer: Option<usize>,
    pub inner: Option<usize>,
    pub probe: Probe,
    pub placement: usize,
}

pub fn build_tree(id: &TreeId) -> Tx {
    let cs = contexts();
    let hole_kind = match (id.inner, id.outer) {
        (Some(i), _) => cs[i].hole,
        (None, Some(o)) => cs[o].hole,
        (None, None) => placement_kind(id.placement),
    };
    let mut e = probe_expr(id.probe, hole_kind);
    if let Some(i) = id.inner {
        e = (cs[i].wrap)(e);
    }
    if let Some(o) = id.outer {
        e = (cs[o].wrap)(e);
    }
    place(id.placement, e)
}

pub fn describe(id: &TreeId) -> String {
    let cs = contexts();
    format!(
        "{} <- {}{}{:?}",
        PLACEMENTS[id.placement],
        id.outer.map(|o| format!("{}(", cs[o].label)).unwrap_or_default(),
        id.inner.map(|i| format!("{}(", cs[i].label)).unwrap_or_default(),
        id.probe
    )
}
