//! A small lexer for tx3 source text used by the token-level mutators (it only needs to cut a source into
//! pieces whose concatenation with single spaces is again a sensible source).

#[derive(Debug, Clone, PartialEq)]
pub struct Tok {
    pub text: String,
    pub start: usize,
    pub end: usize,
}

pub fn lex(src: &str) -> Vec<Tok> {
    let b = src.as_bytes();
    let mut i = 0;
    let mut out = vec![];
    while i < b.len() {
        let c = b[i];
        if c.is_ascii_whitespace() {
            i += 1;
            continue;
        }
        let start = i;
        if c == b'/' && b.get(i + 1) == Some(&b'/') {
            while i < b.len() && b[i] != b'\n' {
                i += 1;
            }
            continue;
        }
        if c == b'/' && b.get(i + 1) == Some(&b'*') {
            i += 2;
            while i + 1 < b.len() && !(b[i] == b'*' && b[i + 1] == b'/') {
                i += 1;
            }
            i = (i + 2).min(b.len());
            continue;
        }
        if c == b'"' {
            i += 1;
            while i < b.len() && b[i] != b'"' {
                i += 1;
            }
            i = (i + 1).min(b.len());
        } else if c == b'0' && b.get(i + 1) == Some(&b'x') {
            i += 2;
            while i < b.len() && (b[i].is_ascii_hexdigit() || b[i] == b'#') {
                i += 1;
            }
        } else if c.is_ascii_digit() || (c == b'-' && b.get(i + 1).map(|x| x.is_ascii_digit()).unwrap_or(false)) {
            i += 1;
            while i < b.len() && b[i].is_ascii_digit() {
                i += 1;
            }
        } else if c.is_ascii_alphabetic() {
            while i < b.len() && (b[i].is_ascii_alphanumeric() || b[i] == b'_') {
                i += 1;
            }
            // "List<" and "Map<" are single terminals of the grammar
            if (&src[start..i] == "List" || &src[start..i] == "Map") && b.get(i) == Some(&b'<') {
                i += 1;
            }
        } else if src[i..].starts_with("...") {
            i += 3;
        } else if src[i..].starts_with("::") {
            i += 2;
        } else if src[i..].starts_with("()") {
            i += 2;
        } else {
            // one (possibly multi-byte) character
            let ch = src[i..].chars().next().unwrap();
            i += ch.len_utf8();
        }
        out.push(Tok {
            text: src[start..i].to_string(),
            start,
            end: i,
        });
    }
    out
}

pub fn join(toks: &[String]) -> String {
    toks.join(" ")
}

/// tokens spliced in by the replacement mutator
pub const SPLICE: [&str; 24] = [
    "{", "}", "(", ")", "[", "]", ",", ":", ";", ".", "...", "::", "+", "-", "!", "*", "?", "#", "\"", "0x", "1", "a", "Ada", "//",
];
