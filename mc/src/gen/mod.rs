pub mod grammar;
pub mod tirgen;
pub mod tokens;
