pub mod grammar;
pub mod prog;
pub mod tirgen;
pub mod tokens;
