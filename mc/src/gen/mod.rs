pub mod grammar;
pub mod tokens;
