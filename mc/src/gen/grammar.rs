//! Enumerates derivations of the language's own grammar file (read with pest_meta at run time, so new
//! rules are picked up without touching the harness). Every ordered choice, optional and repetition is a
//! choice point of the `dbx` chooser; atomic rules draw from literal alphabets chosen to sit on the
//! boundaries the AST builder cares about (64-bit numerals, odd-length hex, keyword-like identifiers).

use crate::engine::dbx::Chooser;
use pest_meta::ast::RuleType;
use pest_meta::optimizer::{OptimizedExpr as E, OptimizedRule};
use std::collections::{BTreeMap, VecDeque};

pub const GRAMMAR_PATH: &str = "/repo/crates/tx3-lang/src/tx3.pest";

pub struct Grammar {
    pub rules: BTreeMap<String, OptimizedRule>,
    pub order: Vec<String>,
    /// minimal derivation height per rule
    height: BTreeMap<String, usize>,
    /// parent link on a shortest path from `program`
    parent: BTreeMap<String, String>,
}

pub fn leaf_alphabet(rule: &str) -> Option<Vec<&'static str>> {
    Some(match rule {
        "identifier" => vec!["a", "b", "Ada", "fees", "Int", "tx", "Z9_", "v"],
        "number" => vec![
            "1",
            "0",
            "-1",
            "9223372036854775807",
            "9223372036854775808",
            "-9223372036854775809",
            "99999999999999999999999999999999999999999",
        ],
        "string" => vec![
            "\"s\"",
            "\"\"",
            "\"é\"",
            "\"//\"",
            "\"0123456789012345678901234567890123456789012345678901234567890123456789\"",
        ],
        "bool" => vec!["true", "false"],
        "hex_string" => vec![
            "0xAB",
            "0xABC",
            "0x0",
            "0xABCDEF0123456789ABCDEF0123456789ABCDEF0123456789ABCDEF0123456789ABCDEF0123456789ABCDEF0123456789ABCDEF0123456789ABCDEF0123456789ABCDEF0123456789ABCDEF0123456789ABCDEF0123456789ABCDEF0123456789ABCDEF0123456789",
        ],
        "wildcard" => vec!["*"],
        "unit" => vec!["()"],
        "utxo_ref" => vec!["0xAB#0", "0xABC#0", "0xAB#99999999999999999999999", "0xAB#4294967296"],
        _ => return None,
    })
}

impl Grammar {
    pub fn load() -> Result<Self, String> {
        let text = std::fs::read_to_string(GRAMMAR_PATH).map_err(|e| format!("cannot read grammar: {e}"))?;
        Self::from_text(&text)
    }

    pub fn from_text(text: &str) -> Result<Self, String> {
        let (_, rules) = pest_meta::parse_and_optimize(text).map_err(|e| format!("grammar does not parse: {e:?}"))?;
        let order: Vec<String> = rules.iter().map(|r| r.name.clone()).collect();
        let rules: BTreeMap<String, OptimizedRule> = rules.into_iter().map(|r| (r.name.clone(), r)).collect();
        let mut g = Grammar {
            rules,
            order,
            height: BTreeMap::new(),
            parent: BTreeMap::new(),
        };
        g.compute_heights();
        g.compute_parents();
        Ok(g)
    }

    fn is_leaf(&self, rule: &str) -> bool {
        leaf_alphabet(rule).is_some()
            || matches!(
                self.rules.get(rule).map(|r| r.ty),
                Some(RuleType::Atomic) | Some(RuleType::CompoundAtomic)
            )
    }

    fn expr_height(&self, e: &E) -> Option<usize> {
        match e {
            E::Str(_) | E::Insens(_) | E::Range(_, _) | E::Skip(_) | E::PeekSlice(_, _) => Some(0),
            E::PosPred(_) | E::NegPred(_) => Some(0),
            E::Ident(n) => {
                if !self.rules.contains_key(n) || self.is_leaf(n) {
                    Some(1)
                } else {
                    self.height.get(n).map(|h| h + 1)
                }
            }
            E::Seq(a, b) => Some(self.expr_height(a)?.max(self.expr_height(b)?)),
            E::Choice(_, _) => self.alternatives(e).iter().filter_map(|x| self.expr_height(x)).min(),
            E::Opt(_) | E::Rep(_) => Some(0),
            E::Push(x) | E::RestoreOnErr(x) => self.expr_height(x),
            #[allow(unreachable_patterns)]
            _ => Some(0),
        }
    }

    fn compute_heights(&mut self) {
        loop {
            let mut changed = false;
            for name in self.order.clone() {
                let h = if self.is_leaf(&name) {
                    Some(0)
                } else {
                    self.expr_height(&self.rules[&name].expr)
                };
                if let Some(h) = h {
                    if self.height.get(&name).map(|old| h < *old).unwrap_or(true) {
                        self.height.insert(name, h);
                        changed = true;
                    }
                }
            }
            if !changed {
                break;
            }
        }
    }

    fn idents(e: &E, out: &mut Vec<String>) {
        match e {
            E::Ident(n) => out.push(n.clone()),
            E::Seq(a, b) | E::Choice(a, b) => {
                Self::idents(a, out);
                Self::idents(b, out);
            }
            E::Opt(x) | E::Rep(x) | E::Push(x) | E::RestoreOnErr(x) => Self::idents(x, out),
            _ => {}
        }
    }

    fn compute_parents(&mut self) {
        let mut q = VecDeque::new();
        q.push_back("program".to_string());
        let mut seen = vec!["program".to_string()];
        while let Some(r) = q.pop_front() {
            if self.is_leaf(&r) {
                continue;
            }
            let Some(rule) = self.rules.get(&r) else { continue };
            let mut ids = vec![];
            Self::idents(&rule.expr, &mut ids);
            for i in ids {
                if self.rules.contains_key(&i) && !seen.contains(&i) {
                    seen.push(i.clone());
                    self.parent.insert(i.clone(), r.clone());
                    q.push_back(i);
                }
            }
        }
    }

    /// rules reachable from `program` (focus candidates), in grammar order
    pub fn focus_rules(&self) -> Vec<String> {
        self.order
            .iter()
            .filter(|r| *r == "program" || self.parent.contains_key(*r))
            .filter(|r| !matches!(r.as_str(), "WHITESPACE" | "COMMENT"))
            .cloned()
            .collect()
    }

    /// chain program -> ... -> focus
    fn path_to(&self, focus: &str) -> Vec<String> {
        let mut p = vec![focus.to_string()];
        let mut cur = focus.to_string();
        while let Some(par) = self.parent.get(&cur) {
            p.push(par.clone());
            cur = par.clone();
        }
        p.reverse();
        p
    }

    fn alternatives<'e>(&self, e: &'e E) -> Vec<&'e E> {
        let mut out = vec![];
        fn go<'e>(e: &'e E, out: &mut Vec<&'e E>) {
            match e {
                E::Choice(a, b) => {
                    go(a, out);
                    go(b, out);
                }
                x => out.push(x),
            }
        }
        go(e, &mut out);
        out
    }

    fn contains_ident(e: &E, name: &str) -> bool {
        let mut ids = vec![];
        Self::idents(e, &mut ids);
        ids.iter().any(|i| i == name)
    }

    /// Derives the token list of one program: the path from `program` to `focus` is forced (no choice
    /// points), everything inside the focus rule is explored, everything else takes minimal defaults.
    pub fn derive(&self, focus: &str, ch: &mut Chooser, max_depth: usize) -> Vec<String> {
        let path = self.path_to(focus);
        let mut out = vec![];
        let mut st = State {
            g: self,
            path: &path,
            ch,
            max_depth,
            out: &mut out,
            in_locals_name: false,
        };
        st.rule("program", 0, 0, false);
        out
    }
}

struct State<'a, 'c> {
    g: &'a Grammar,
    path: &'a [String],
    ch: &'c mut Chooser,
    max_depth: usize,
    out: &'c mut Vec<String>,
    in_locals_name: bool,
}

impl<'a, 'c> State<'a, 'c> {
    /// `on_path`: index into `path` of the rule being expanded (if it lies on the forced path);
    /// `free`: inside the focus rule, choices are explored
    fn rule(&mut self, name: &str, depth: usize, path_ix: usize, free: bool) {
        if let Some(alpha) = leaf_alphabet(name) {
            let tok = if free { *self.ch.pick(&alpha) } else { alpha[0] };
            // the name a `locals` entry defines is kept apart from the default identifier: with one
            // spelling everywhere every local would refer to itself, and self-referring locals all fall
            // into one (expensive) analysis path; "v" is still reachable as a deviation elsewhere
            let tok = if name == "identifier" && tok == "a" && self.in_locals_name { "v" } else { tok };
            self.out.push(tok.to_string());
            self.in_locals_name = false;
            return;
        }
        let Some(rule) = self.g.rules.get(name) else {
            // built-in rule (SOI, EOI, ANY, ASCII_*): nothing to emit outside atomic rules
            return;
        };
        if matches!(rule.ty, RuleType::Atomic | RuleType::CompoundAtomic) {
            self.out.push("a".to_string());
            return;
        }
        let on_path = !free && self.path.get(path_ix).map(|p| p == name).unwrap_or(false);
        let is_focus = on_path && path_ix + 1 == self.path.len();
        let free = free || is_focus;
        let next = if on_path && !is_focus { Some(self.path[path_ix + 1].clone()) } else { None };
        let g: &'a Grammar = self.g;
        let expr = &g.rules[name].expr;
        if name == "locals_assign" {
            self.in_locals_name = true;
        }
        self.expr(expr, depth + 1, path_ix.saturating_add(1), free, next.as_deref());
    }

    /// `toward`: the child rule that must be reached (forced path), if any
    fn expr(&mut self, e: &'a E, depth: usize, path_ix: usize, free: bool, toward: Option<&str>) {
        match e {
            E::Str(s) | E::Insens(s) => self.out.push(s.clone()),
            E::Range(a, _) => self.out.push(a.clone()),
            E::Ident(n) => {
                let on = toward == Some(n.as_str());
                self.rule(n, depth, if on { path_ix } else { usize::MAX }, free);
            }
            E::Seq(a, b) => {
                // the forced child is taken in the first branch that can reach it
                let ta = toward.filter(|t| Grammar::contains_ident(a, t));
                let tb = if ta.is_some() { None } else { toward };
                self.expr(a, depth, path_ix, free, ta);
                self.expr(b, depth, path_ix, free, tb);
            }
            E::Choice(_, _) => {
                let alts = self.g.alternatives(e);
                if let Some(t) = toward {
                    if let Some(a) = alts.iter().find(|a| Grammar::contains_ident(a, t)) {
                        self.expr(a, depth, path_ix, free, toward);
                        return;
                    }
                }
                // default = alternative of minimal height (first on ties); the others follow in order
                let mut order: Vec<usize> = (0..alts.len()).collect();
                let best = (0..alts.len())
                    .min_by_key(|i| self.g.expr_height(alts[*i]).unwrap_or(usize::MAX))
                    .unwrap_or(0);
                order.retain(|i| *i != best);
                order.insert(0, best);
                let pick = if free && depth < self.max_depth {
                    order[self.ch.choose(order.len())]
                } else {
                    best
                };
                self.expr(alts[pick], depth, path_ix, free, None);
            }
            E::Opt(x) => {
                if toward.map(|t| Grammar::contains_ident(x, t)).unwrap_or(false) {
                    self.expr(x, depth, path_ix, free, toward);
                } else if free && depth < self.max_depth && self.ch.flag() {
                    self.expr(x, depth, path_ix, free, None);
                }
            }
            E::Rep(x) => {
                if toward.map(|t| Grammar::contains_ident(x, t)).unwrap_or(false) {
                    self.expr(x, depth, path_ix, free, toward);
                } else if free && depth < self.max_depth {
                    let n = self.ch.choose(3);
                    for _ in 0..n {
                        self.expr(x, depth, path_ix, free, None);
                    }
                }
            }
            E::Push(x) | E::RestoreOnErr(x) => self.expr(x, depth, path_ix, free, toward),
            E::PosPred(_) | E::NegPred(_) | E::Skip(_) | E::PeekSlice(_, _) => {}
            #[allow(unreachable_patterns)]
            _ => {}
        }
    }
}

pub fn join(tokens: &[String]) -> String {
    tokens.join(" ")
}
