//! C18 — lowering and encoding are deterministic.
//!
//! For every corpus program and every program of the C17 spelling generator plus directive-bearing bases:
//! parse + analyze + lower + to_bytes is repeated in-process until every iteration order of every chain-
//! specific directive's field map has been observed (at least 20 times); three fresh `tx3c` processes emit
//! the TII. All byte strings must be identical.

use super::c13;
use super::c17::run_tx3c;
use crate::common::pipeline::lower_source;
use crate::engine::{hash64, panics, Outcome, Prop, Sink, Tier, Violation};
use serde_json::{json, Value};
use std::collections::{BTreeMap, BTreeSet};
use tx3_tir::encoding::to_bytes;

pub struct C18;

fn directive_bases() -> Vec<(String, String)> {
    let head = "party A;\nparty B;\ntx t(n: Int) {\n    input src {\n        from: A,\n        min_amount: Ada(n),\n    }\n    output {\n        to: B,\n        amount: src - fees,\n    }\n";
    let mut v = vec![];
    let blocks = [
        ("withdrawal", "    cardano::withdrawal {\n        from: A,\n        amount: n,\n        redeemer: (),\n    }\n"),
        ("plutus_witness", "    cardano::plutus_witness {\n        version: 3,\n        script: 0x4E4D01,\n    }\n"),
        ("vote_delegation", "    cardano::vote_delegation_certificate {\n        drep: 0x12345678,\n        stake: 0x87654321,\n    }\n"),
        ("publish", "    cardano::publish {\n        to: B,\n        amount: Ada(n),\n        datum: (),\n        version: 3,\n        script: 0x4E4D01,\n    }\n"),
        ("donation", "    cardano::treasury_donation {\n        coin: n,\n    }\n"),
    ];
    for (n, b) in blocks.iter() {
        v.push((format!("directive-{n}"), format!("{head}{b}}}\n")));
    }
    let all: String = blocks.iter().map(|(_, b)| *b).collect();
    v.push(("directive-all".into(), format!("{head}{all}}}\n")));
    // definitions that differ only in case, read through a third spelling (refused today: whatever a front end makes of
    // such a name, it has to make the same of it every time)
    v.push((
        "case-variant-definitions".into(),
        "party A;\npolicy Pol = 0xABCDEF1234ABCDEF1234ABCDEF1234ABCDEF1234ABCDEF1234ABCDEF1234;\npolicy pol = 0xABCDEF1234ABCDEF1234ABCDEF1234ABCDEF1234ABCDEF1234ABCDEF1235;\ntx t(n: Int) {\n    locals {\n        bonus: 1,\n        Bonus: 2,\n    }\n    input src {\n        from: A,\n        min_amount: Ada(n),\n    }\n    output change {\n        to: A,\n        amount: src - fees,\n        datum: BONUS,\n    }\n    output Change {\n        to: POL,\n        amount: min_utxo(CHANGE),\n    }\n}\n".into(),
    ));
    // items written more than once: references naming one UTxO twice among others, a signer twice, one metadata label
    // twice, two mints of one asset (whatever is made of them has to be made the same way every time)
    let r = |ix: u32| format!("0x{}#{ix}", "ab".repeat(32));
    v.push((
        "repeated-items".into(),
        format!(
            "{head}    reference r1 {{\n        ref: {},\n    }}\n    reference r2 {{\n        ref: {},\n    }}\n    reference r3 {{\n        ref: {},\n    }}\n    reference r4 {{\n        ref: {},\n    }}\n    reference r5 {{\n        ref: {},\n    }}\n    signers {{\n        A,\n        B,\n        A,\n        0x{},\n    }}\n    metadata {{\n        1: \"a\",\n        2: \"b\",\n        1: \"c\",\n    }}\n    metadata {{\n        7: \"x\",\n        3: \"y\",\n        5: \"z\",\n        4: \"w\",\n    }}\n    mint {{\n        amount: AnyAsset(0x{p}, \"T\", 1),\n        redeemer: (),\n    }}\n    mint {{\n        amount: AnyAsset(0x{p}, \"T\", 2),\n        redeemer: (),\n    }}\n}}\n",
            r(3), r(1), r(3), r(2), r(0), "0f".repeat(28), p = "cd".repeat(28)
        ),
    ));
    v
}

/// iteration orders of every directive's field map in a lowered program
fn directive_orders(txs: &BTreeMap<String, tx3_tir::model::v1beta0::Tx>) -> Vec<Vec<String>> {
    let mut out = vec![];
    for tx in txs.values() {
        for d in tx.adhoc.iter() {
            out.push(d.data.keys().cloned().collect());
        }
    }
    out
}

fn factorial(n: usize) -> usize {
    (1..=n).product::<usize>().max(1)
}

/// A program that shares every name with `src` but not its structure: in each record / variant declaration the first
/// field (case) moves to the end, so every positional index derived from a name differs between the two.
pub fn sibling(src: &str) -> Option<String> {
    let lines: Vec<&str> = src.lines().collect();
    let mut out: Vec<String> = vec![];
    let mut i = 0;
    let mut changed = false;
    while i < lines.len() {
        let l = lines[i];
        if l.trim_start().starts_with("type ") && l.trim_end().ends_with('{') && !l.contains('=') {
            // top-level declaration: collect its members at nesting depth 1 (a member may span several lines)
            out.push(l.to_string());
            let mut members: Vec<Vec<String>> = vec![];
            let mut depth = 1i32;
            let mut cur: Vec<String> = vec![];
            i += 1;
            while i < lines.len() {
                let m = lines[i];
                let opens = m.matches('{').count() as i32;
                let closes = m.matches('}').count() as i32;
                if depth == 1 && m.trim() == "}" {
                    break;
                }
                cur.push(m.to_string());
                depth += opens - closes;
                if depth == 1 {
                    members.push(std::mem::take(&mut cur));
                }
                i += 1;
            }
            if members.len() >= 2 {
                members.rotate_left(1);
                changed = true;
            }
            for m in members {
                out.extend(m);
            }
            continue;
        }
        out.push(l.to_string());
        i += 1;
    }
    changed.then(|| out.join("\n") + "\n")
}

fn judge(src: &str, with_cli: bool, o: &mut Outcome, detail: &Value) {
    // history of the thread: a program with the same names and another structure was lowered and encoded just before
    // (nothing learnt about one program may be applied to the next)
    if let Some(other) = sibling(src) {
        if let Ok(Ok(t)) = panics::catch(|| lower_source(&other)) {
            for tx in t.values() {
                let _ = to_bytes(tx);
            }
            o.class("lowered-after-a-sibling-program");
        }
    }
    let first = match panics::catch(|| lower_source(src)) {
        Ok(Ok(t)) => t,
        _ => {
            o.class("program-not-lowerable");
            return;
        }
    };
    let encode = |txs: &BTreeMap<String, tx3_tir::model::v1beta0::Tx>| -> Vec<(String, Vec<u8>)> {
        txs.iter().map(|(k, t)| (k.clone(), to_bytes(t).0)).collect()
    };
    let reference = encode(&first);
    let sizes: Vec<usize> = directive_orders(&first).iter().map(|o| o.len()).collect();
    let wanted: usize = sizes.iter().map(|k| factorial((*k).min(4))).max().unwrap_or(1);
    let mut seen: Vec<BTreeSet<Vec<String>>> = sizes.iter().map(|_| BTreeSet::new()).collect();
    let mut reps = 0usize;
    let mut differing = 0usize;
    let started = std::time::Instant::now();
    loop {
        reps += 1;
        o.evals += 1;
        let again = match panics::catch(|| lower_source(src)) {
            Ok(Ok(t)) => t,
            _ => break,
        };
        for (i, ord) in directive_orders(&again).into_iter().enumerate() {
            if let Some(s) = seen.get_mut(i) {
                s.insert(ord);
            }
        }
        if encode(&again) != reference {
            differing += 1;
        }
        let covered = seen.iter().zip(sizes.iter()).all(|(s, k)| s.len() >= factorial((*k).min(4)));
        if (reps >= 20 && covered) || reps >= 600 {
            break;
        }
        // programs the analyzer needs hundreds of milliseconds for: at least 4 repetitions within 2 s
        if reps >= 4 && started.elapsed().as_millis() > 2000 {
            o.class("repetitions-cut-by-time-budget");
            break;
        }
    }
    let observed: usize = seen.iter().map(|s| s.len()).max().unwrap_or(1);
    o.count("in_process_repetitions", reps as u64);
    o.max("directive_field_orders_observed_max", observed as u64);
    o.max("directive_field_orders_possible_max", wanted as u64);
    if differing > 0 {
        o.class("encoding-differs-in-process");
        o.violate(
            Violation::new(
                if sizes.iter().any(|k| *k >= 2) { "nondeterministic|in-process|directive-field-order" } else { "nondeterministic|in-process|other" },
                format!("{differing} of {reps} repetitions of lower + to_bytes gave different bytes ({observed} field orders observed)"),
            )
            .with_detail(detail.clone()),
        );
    } else {
        o.class("in-process-identical");
    }
    if with_cli {
        let mut outs = vec![];
        for i in 0..3 {
            o.evals += 1;
            // the third build writes over what an earlier, longer build left at the output path
            let stale: Option<Vec<u8>> = if i == 2 { outs.first().map(|b: &Vec<u8>| [b.as_slice(), "\n{\"left\": \"over\"}\n".repeat(40).as_bytes()].concat()) } else { None };
            match super::c17::run_tx3c_over(src, &format!("d{i}"), &[], stale.as_deref()) {
                Ok(b) => outs.push(b),
                Err(_) => {
                    o.class("tx3c-failed");
                    return;
                }
            }
        }
        if outs.iter().any(|b| *b != outs[0]) {
            o.class("tii-differs-across-processes");
            o.violate(
                Violation::new(
                    if sizes.iter().any(|k| *k >= 2) { "nondeterministic|tii-across-processes|directive-field-order" } else { "nondeterministic|tii-across-processes|other" },
                    "three fresh tx3c processes wrote different TII files for the same source".to_string(),
                )
                .with_detail(detail.clone()),
            );
        } else {
            o.class("tii-identical-across-processes");
            // and the embedded IR equals the in-process encoding
            if let Ok(doc) = serde_json::from_slice::<Value>(&outs[0]) {
                for (name, bytes) in reference.iter() {
                    if doc["transactions"][name]["tir"]["content"].as_str() != Some(hex::encode(bytes).as_str()) {
                        o.violate(
                            Violation::new(
                                if sizes.iter().any(|k| *k >= 2) { "nondeterministic|tii-vs-in-process|directive-field-order" } else { "nondeterministic|tii-vs-in-process|other" },
                                format!("tx {name}: the IR embedded by tx3c differs from the in-process encoding"),
                            )
                            .with_detail(detail.clone()),
                        );
                    }
                }
            }
        }
    }
}

/// the same command line with profiles (one of them bound to two env files that disagree, two forced ones) in
/// 12 fresh processes: which file feeds a profile, and the order of profiles, must not depend on the process
fn judge_profiles(src: &str, o: &mut Outcome, detail: &Value) {
    let Ok(Ok(program)) = panics::catch(|| tx3_lang::parsing::parse_string(src)) else {
        o.class("program-not-parseable");
        return;
    };
    let mut keys: Vec<String> = program.parties.iter().map(|p| p.name.value.to_uppercase()).collect();
    if let Some(env) = &program.env {
        keys.extend(env.fields.iter().map(|f| f.name.to_uppercase()));
    }
    let file = |tag: &str, val: &str| -> String {
        let body: String = keys.iter().map(|k| format!("{k}={val}\n")).collect();
        super::c17::scratch_file(&format!("{tag}.env"), &body)
    };
    let (base, over, third) = (file("base", "1"), file("override", "2"), file("third", "3"));
    let extra: Vec<String> = [
        "--protocol-name", "demo",
        "--profile-env-file", &format!("preview:{base}"),
        "--profile-env-file", &format!("preview:{over}"),
        "--profile-env-file", &format!("mainnet:{third}"),
        "--profile-env-file", &format!("preview:{third}"),
        "--profile", "local",
        "--profile", "staging",
        "--profile", "mainnet",
        // names that differ only in case, one with an env file and one forced
        "--profile", "Preview",
        "--profile-env-file", &format!("STAGING:{over}"),
    ]
    .iter()
    .map(|s| s.to_string())
    .collect();
    let mut outs = vec![];
    for i in 0..12 {
        o.evals += 1;
        match super::c17::run_tx3c_with(src, &format!("pr{i}"), &extra) {
            Ok(b) => outs.push(b),
            Err(_) => {
                o.class("tx3c-failed");
                return;
            }
        }
    }
    let distinct: BTreeSet<&Vec<u8>> = outs.iter().collect();
    if distinct.len() > 1 {
        o.class("tii-with-profiles-differs-across-processes");
        o.violate(
            Violation::new(
                "nondeterministic|tii-across-processes|profiles",
                format!("12 fresh tx3c processes with one command line (3 profiles, one bound to three env files) wrote {} different TII files", distinct.len()),
            )
            .with_detail(detail.clone()),
        );
    } else {
        o.class("tii-with-profiles-identical-across-processes");
    }
}

impl Prop for C18 {
    fn id(&self) -> &'static str {
        "C18"
    }
    fn rule(&self, _tier: Tier) -> String {
        "every corpus program, 6 directive-bearing bases (withdrawal 3 fields, plutus_witness 2, vote delegation 2, publish 5, donation, all together), a base that writes items more than once (references, signers, metadata labels, mints), \
         every spelling-generator program with <= 1 deviation and every distinct program of the typed generator (gen::prog) with <= 2 (thorough 3) deviations: parse+analyze+lower+to_bytes repeated in one process until every iteration order \
         of every directive's field map (k! for k <= 4 fields) was observed and at least 20 times (cap 600); three fresh tx3c processes, the third writing over a longer file left at its output path; all encodings \
         and all TII files byte-identical, embedded IR = in-process encoding. Every corpus program additionally through 12 fresh tx3c processes with one command line that declares profiles (one bound to three env files with different values, forced profiles, a protocol name): one byte string. Non-trivial = program lowered and repeated; distinct = distinct sources."
            .into()
    }
    fn assumptions(&self) -> Vec<String> {
        vec![
            "std's per-instance hasher keys cannot be chosen; the iteration order of each directive map is observed on the lowered value and the run continues until all orders were seen".into(),
            "for maps of 5 fields (publish) 24 distinct orders are required, not all 120".into(),
            "a program whose analysis takes so long that 20 repetitions exceed 2 s is repeated at least 4 times (class repetitions-cut-by-time-budget)".into(),
        ]
    }
    fn bound(&self, _tier: Tier) -> String {
        ">= 20 in-process repetitions with full order coverage for <= 4 fields; 3 processes".into()
    }
    fn case_identity(&self, case: &Value) -> String {
        case["src"].as_str().unwrap_or("").to_string()
    }
    fn observation_is_proof(&self) -> bool {
        true
    }
    fn enumerate(&self, tier: Tier, sink: &mut Sink) {
        for (name, src) in directive_bases() {
            sink.case(|| json!({"kind": "directive-base", "file": name, "src": src, "cli": true}));
        }
        for (name, src) in c13::corpus(tier) {
            sink.case(|| json!({"kind": "corpus", "file": name, "src": src, "cli": true}));
        }
        for (name, src) in c13::corpus(tier) {
            sink.case(|| json!({"kind": "cli-profiles", "file": name, "src": src}));
        }
        let mut gen = |c: &mut crate::engine::dbx::Chooser| super::c17::gen_program_pub(c);
        crate::engine::dbx::explore(if tier.is_thorough() { 2 } else { 1 }, &mut gen, &mut |choices, _d, src| {
            sink.case(|| json!({"kind": "spelling", "choices": choices, "src": src, "cli": true}));
        });
        for src in crate::gen::prog::distinct_sources(if tier.is_thorough() { 3 } else { 2 }) {
            sink.case(|| json!({"kind": "generator", "src": src, "cli": true}));
        }
    }
    fn run(&self, case: &Value) -> Outcome {
        let mut o = Outcome::default();
        let src = case["src"].as_str().unwrap_or("");
        if case["kind"] == "cli-profiles" {
            judge_profiles(src, &mut o, &json!({"kind": case["kind"], "file": case["file"]}));
            if o.classes.keys().any(|k| k.starts_with("tii-with-profiles")) {
                o.key(hash64(&format!("profiles:{src}")));
            }
            return o;
        }
        judge(src, case["cli"].as_bool().unwrap_or(false), &mut o, &json!({"kind": case["kind"], "file": case["file"]}));
        if o.classes.keys().any(|k| k.starts_with("in-process") || k.starts_with("encoding")) {
            o.key(hash64(src));
        }
        o
    }
}
