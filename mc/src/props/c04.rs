//! C04 — a transaction never spends one UTxO through two input blocks.
//!
//! Same seam as C03 (`inputs::resolve`) with k = 1..4 overlapping blocks (+ optional collateral), every
//! ordered tuple of block types (the tuple order is the name order, i.e. the visiting schedule), every
//! assignment of names to source positions, stores restricted to one address so that overlap is forced.
//! A second pass compiles the resolved template and reads the input list of the emitted transaction.

use super::c03::{self, Content, Query, Sel};
use crate::common::pipeline::{compiler, PP};
use crate::common::store::factorial;
use crate::common::tirb;
use crate::common::txdecode;
use crate::engine::{hash64, Outcome, Prop, Sink, Tier, Violation};
use serde_json::{json, Value};
use tx3_tir::compile::Compiler as _;
use tx3_tir::encoding::AnyTir;
use tx3_tir::model::v1beta0 as tir;
use tx3_tir::reduce::Apply as _;

pub struct C04;

fn block_types() -> Vec<Query> {
    let q = |refs: Vec<usize>, min: Option<[Option<i128>; 3]>, many: bool| Query {
        address: Some(0),
        refs,
        min,
        many,
        collateral: false,
    };
    vec![
        q(vec![], None, false),
        q(vec![], Some([Some(2), None, None]), false),
        q(vec![], Some([Some(2), None, None]), true),
        q(vec![], Some([Some(3), None, None]), true),
        q(vec![], Some([None, Some(1), None]), false),
        q(vec![], Some([Some(1), Some(2), None]), true),
        // lovelace that the token holders alone cannot cover: tempts a selector to reach for a UTxO that is gone
        q(vec![], Some([Some(3), Some(1), None]), true),
        q(vec![0], None, false),
        q(vec![0, 1], Some([Some(1), None, None]), true),
        // blocks without `from`: candidates are what is referenced / what holds the requested token, wherever it
        // sits - they compete with the party's blocks for the same UTxOs
        Query { address: None, ..q(vec![0], None, false) },
        Query { address: None, ..q(vec![], Some([None, Some(1), None]), false) },
        // ... and one that also wants more lovelace than a token holder brings: what an earlier block took at the
        // party's address lies outside this block's candidates and must stay outside
        Query { address: None, ..q(vec![], Some([Some(3), Some(1), None]), true) },
    ]
}

fn store_contents() -> Vec<Content> {
    let mut v = vec![];
    for l in 1..=2 {
        for t1 in 0..=1 {
            v.push(Content { addr: 0, amt: [l, t1, 0] });
        }
    }
    v
}

fn multisets(m: usize, k: usize, cur: &mut Vec<usize>, start: usize, f: &mut dyn FnMut(&[usize])) {
    if cur.len() == k {
        f(cur);
        return;
    }
    for i in start..m {
        cur.push(i);
        multisets(m, k, cur, i, f);
        cur.pop();
    }
}

// two names sort before "collateral" and two after it (blocks are visited in name order)
// two of them differ only in case: names are matched as written. A case with k blocks uses the first k names: the
// first two straddle "collateral", the first three hold the case variants
const NAMES: [&str; 4] = ["a", "x", "A", "b"];

/// Runs a template with the given blocks; `names[i]` is the name of source block i.
/// Returns per-block selections in NAME order, or the error kind.
fn run_blocks(
    store: &crate::common::store::MemStore,
    blocks: &[Query],
    names: &[usize],
    collateral: bool,
) -> Result<(Vec<(String, Query, Sel)>, AnyTir), String> {
    let mut tx = tirb::empty_tx();
    for (i, b) in blocks.iter().enumerate() {
        tx.inputs.push(tirb::input(NAMES[names[i]], b.to_tir()));
    }
    if collateral {
        let q = Query {
            address: Some(0),
            refs: vec![],
            min: Some([Some(1), None, None]),
            many: false,
            collateral: true,
        };
        tx.collateral.push(tir::Collateral {
            utxos: tirb::query_input("collateral", q.to_tir()),
        });
    }
    let tx = AnyTir::V1Beta0(tx).apply_fees(0).map_err(|e| format!("apply_fees:{e}"))?;
    let res = pollster::block_on(tx3_resolver::inputs::resolve(tx, store)).map_err(|e| match &e {
        tx3_resolver::Error::InputNotResolved(name, ..) => format!("InputNotResolved:{name}"),
        other => c03::err_kind(other),
    })?;
    let AnyTir::V1Beta0(t) = &res;
    let mut out = vec![];
    for (i, inp) in t.inputs.iter().enumerate() {
        let sel = match &inp.utxos {
            tir::Expression::EvalParam(p) => match p.as_ref() {
                tir::Param::Set(tir::Expression::UtxoSet(s)) => Sel::Ok(s.iter().cloned().collect()),
                other => Sel::Err(format!("not-applied:{other:?}")),
            },
            other => Sel::Err(format!("not-applied:{other:?}")),
        };
        out.push((inp.name.clone(), blocks[i].clone(), sel));
    }
    out.sort_by(|a, b| a.0.cmp(&b.0));
    Ok((out, res))
}

fn positions(cs: &[Content], sel: &Sel) -> Vec<usize> {
    match sel {
        Sel::Ok(set) => set
            .iter()
            .filter_map(|u| (0..cs.len()).find(|i| c03::ref_at(*i) == u.r#ref))
            .collect(),
        _ => vec![],
    }
}

fn judge_run(
    cs: &[Content],
    blocks: &[Query],
    names: &[usize],
    collateral: bool,
    plan: Vec<usize>,
    o: &mut Outcome,
) -> Vec<usize> {
    let store = c03::make_store(cs);
    *store.order_plan.lock().unwrap() = plan.clone();
    let res = run_blocks(&store, blocks, names, collateral);
    let fetched: Vec<usize> = store.fetch_orders.lock().unwrap().iter().map(|f| f.len()).collect();
    o.evals += 1;
    let detail = || {
        json!({
            "store": cs.iter().enumerate().map(|(i, c)| json!({"ref": format!("r{i}"), "lovelace": c.amt[0], "T1": c.amt[1]})).collect::<Vec<_>>(),
            "blocks": blocks.iter().enumerate().map(|(i, b)| format!("{}: {}", NAMES[names[i]], b.describe())).collect::<Vec<_>>(),
            "collateral": collateral,
            "candidate_order_plan": plan,
        })
    };
    match res {
        Err(kind) => {
            o.class(format!("err:{}", kind.split(':').next().unwrap_or("?")));
            // per-block completeness: the block that was reported unresolved must really have no candidate
            // (or set) left once the blocks visited before it are served
            if let Some(failed) = kind.strip_prefix("InputNotResolved:") {
                let mut order: Vec<(String, Option<usize>)> = (0..blocks.len()).map(|i| (NAMES[names[i]].to_string(), Some(i))).collect();
                if collateral {
                    order.push(("collateral".to_string(), None));
                }
                order.sort();
                let before: Vec<usize> = order.iter().take_while(|(n, _)| n != failed).filter_map(|(_, i)| *i).collect();
                let collateral_before = collateral && order.iter().take_while(|(n, _)| n != failed).any(|(n, _)| n == "collateral");
                // what the earlier blocks took (selection is a function of the store: re-running the prefix gives it)
                let pre_blocks: Vec<Query> = before.iter().map(|i| blocks[*i].clone()).collect();
                let pre_names: Vec<usize> = before.iter().map(|i| names[*i]).collect();
                let store2 = c03::make_store(cs);
                *store2.order_plan.lock().unwrap() = plan.clone();
                let mut taken: Vec<usize> = vec![];
                if let Ok((sels, _)) = run_blocks(&store2, &pre_blocks, &pre_names, collateral_before) {
                    for (_, _, sel) in &sels {
                        taken.extend(positions(cs, sel));
                    }
                }
                let failed_query = if failed == "collateral" {
                    Some(Query { address: Some(0), refs: vec![], min: Some([Some(1), None, None]), many: false, collateral: true })
                } else {
                    (0..blocks.len()).find(|i| NAMES[names[*i]] == failed).map(|i| blocks[i].clone())
                };
                if let Some(q) = failed_query {
                    let mut vs = vec![];
                    c03::judge(cs, &q, &taken, &Sel::Err("InputNotResolved".into()), &mut vs);
                    for (sig, what) in vs {
                        o.violate(
                            Violation::new(format!("multi-block|{sig}"), format!("block {failed} reported unresolved after earlier blocks took {taken:?}: {what}"))
                                .with_detail(detail()),
                        );
                    }
                }
            }
        }
        Ok((sels, resolved)) => {
            o.class("resolved");
            let mut taken: Vec<usize> = vec![];
            let mut total = 0usize;
            for (name, q, sel) in &sels {
                let mut vs = vec![];
                c03::judge(cs, q, &taken, sel, &mut vs);
                vs.sort();
                vs.dedup();
                for (sig, what) in vs {
                    // `reused` is this property's own violation; everything else is C03's business but a
                    // block that is served wrongly in a multi-block template is reported here as well
                    o.violate(Violation::new(format!("multi-block|{sig}"), format!("block {name}: {what}")).with_detail(detail()));
                }
                let pos = positions(cs, sel);
                total += pos.len();
                taken.extend(pos);
            }
            let mut uniq = taken.clone();
            uniq.sort();
            uniq.dedup();
            if uniq.len() != taken.len() {
                o.violate(
                    Violation::new("disjointness|utxo-bound-to-two-blocks", format!("selections overlap: {taken:?}"))
                        .with_detail(detail()),
                );
            }
            // second pass: the emitted transaction - as resolved, and with a reference block that names every UTxO of the
            // store (what a template references has no say in what it spends)
            let reduced = resolved.reduce();
            let variants: Vec<Result<AnyTir, String>> = match reduced {
                Err(e) => vec![Err(e.to_string())],
                Ok(AnyTir::V1Beta0(t)) => {
                    let mut with_refs = t.clone();
                    with_refs.references.push(tir::Expression::UtxoRefs((0..cs.len()).map(c03::ref_at).collect()));
                    vec![Ok(AnyTir::V1Beta0(t)), Ok(AnyTir::V1Beta0(with_refs))]
                }
            };
            for variant in variants {
            let mut comp = compiler(&PP::default());
            match variant {
                Err(e) => o.class(format!("reduce-err:{}", crate::engine::first_line(&e, 30))),
                Ok(t) => match comp.compile(&t) {
                    Err(e) => o.class(format!("compile-err:{}", crate::engine::first_line(&e.to_string(), 30))),
                    Ok(ctx) => match txdecode::decode_tx(&ctx.payload) {
                        Err(e) => o.violate(Violation::new("emitted|undecodable", e).with_detail(detail())),
                        Ok(rec) => {
                            let mut ins = rec.inputs.clone();
                            let n = ins.len();
                            ins.sort();
                            ins.dedup();
                            if ins.len() != n {
                                o.violate(
                                    Violation::new("emitted|duplicate-input", format!("input list has {} entries, {} distinct", n, ins.len()))
                                        .with_detail(detail()),
                                );
                            }
                            if n != total {
                                o.violate(
                                    Violation::new(
                                        "emitted|input-count-differs-from-selections",
                                        format!("|tx.inputs| = {n}, sum of selections = {total}"),
                                    )
                                    .with_detail(detail()),
                                );
                            }
                            let expect: Vec<(Vec<u8>, u64)> = {
                                let mut e: Vec<_> = taken
                                    .iter()
                                    .map(|i| {
                                        let r = c03::ref_at(*i);
                                        (r.txid, r.index as u64)
                                    })
                                    .collect();
                                e.sort();
                                e.dedup();
                                e
                            };
                            if ins != expect {
                                o.violate(
                                    Violation::new("emitted|inputs-differ-from-selections", "input set differs from the union of selections")
                                        .with_detail(detail()),
                                );
                            }
                        }
                    },
                },
            }
            }
        }
    }
    fetched
}

fn run_case(store_idx: &[usize], tuple: &[usize], collateral: bool, perms: bool) -> Outcome {
    let all = store_contents();
    let cs: Vec<Content> = store_idx.iter().map(|i| all[*i]).collect();
    let types = block_types();
    let blocks: Vec<Query> = tuple.iter().map(|i| types[*i].clone()).collect();
    // refs pointing beyond the store become dangling
    let blocks: Vec<Query> = blocks
        .into_iter()
        .map(|mut b| {
            for r in b.refs.iter_mut() {
                if *r >= cs.len() {
                    *r = usize::MAX;
                }
            }
            b
        })
        .collect();
    let mut o = Outcome::default();
    let k = blocks.len();
    // name assignments: identity plus (optionally) every permutation of names over source positions
    let nperm = if perms { factorial(k) } else { 1 };
    let base: Vec<usize> = (0..k).collect();
    for p in 0..nperm {
        let names = crate::common::store::nth_permutation(&base, p);
        let fetched = judge_run(&cs, &blocks, &names, collateral, vec![], &mut o);
        // candidate-set orders of the first two fetches
        if p == 0 && fetched.iter().take(2).any(|n| *n >= 2) {
            // every order of the first candidate set, and (separately) of the second
            let f0 = fetched.first().copied().unwrap_or(0).min(4);
            let f1 = fetched.get(1).copied().unwrap_or(0).min(4);
            for r0 in 1..factorial(f0) {
                judge_run(&cs, &blocks, &names, collateral, vec![r0, 0], &mut o);
                o.count("candidate_orders_enumerated", 1);
            }
            for r1 in 1..factorial(f1) {
                judge_run(&cs, &blocks, &names, collateral, vec![0, r1], &mut o);
                o.count("candidate_orders_enumerated", 1);
            }
        }
    }
    o.key(hash64(&(store_idx, tuple, collateral)));
    o
}


// ---- language level: block names are the only thing that tells input blocks apart ----------------------

/// names that differ as identifiers but may meet after case folding or collide with the collateral block's key
const LANG_NAMES: [&str; 8] = ["a", "A", "b", "aB", "Ab", "collateral", "Collateral", "x"];

fn lang_source(names: &[&str], collateral: bool, many: bool) -> String {
    let mut s = String::from("party S;\ntx t() {\n");
    for n in names {
        s.push_str(&format!("    input{} {n} {{\n        from: S,\n        min_amount: Ada(1),\n    }}\n", if many { "*" } else { "" }));
    }
    if collateral {
        s.push_str("    collateral {\n        from: S,\n        min_amount: Ada(1),\n    }\n");
    }
    s.push_str(&format!("    output {{\n        to: S,\n        amount: {} - fees,\n    }}\n}}\n", names.join(" + ")));
    s
}

fn run_lang(names: &[&str], collateral: bool, many: bool, n_utxos: usize) -> Outcome {
    let mut o = Outcome::default();
    o.evals = 1;
    let src = lang_source(names, collateral, many);
    let detail = json!({"source": src, "utxos_at_S": n_utxos, "level": "language"});
    let tx = match crate::engine::panics::catch(|| crate::common::pipeline::lower_source(&src)) {
        Ok(Ok(mut txs)) => match txs.remove("t") {
            Some(t) => t,
            None => {
                o.class("lang:no-tx");
                return o;
            }
        },
        Ok(Err(_)) => {
            // e.g. a name the grammar reserves, or two names the analyzer calls duplicates: nothing to judge
            o.class("lang:front-end-rejects");
            return o;
        }
        Err(_) => {
            o.class("lang:front-end-panics(C12)");
            return o;
        }
    };
    let cs: Vec<Content> = (0..n_utxos).map(|_| Content { addr: 0, amt: [2, 0, 0] }).collect();
    let store = c03::make_store(&cs);
    let mut args: tx3_tir::reduce::ArgMap = Default::default();
    args.insert("s".into(), tx3_tir::reduce::ArgValue::Address(c03::addr(0)));
    let staged = AnyTir::V1Beta0(tx).apply_args(&args).and_then(|t| t.apply_fees(0)).and_then(|t| t.reduce());
    let Ok(staged) = staged else {
        o.class("lang:apply-failed");
        return o;
    };
    let res = match pollster::block_on(tx3_resolver::inputs::resolve(staged, &store)) {
        Ok(r) => r,
        Err(e) => {
            // refusing is always allowed by the property when the store cannot serve all blocks
            if std::env::var("VERIF_DEBUG").is_ok() {
                eprintln!("lang refused: {e:?}\n{src}");
            }
            o.class("lang:resolution-refused");
            if n_utxos >= names.len() + collateral as usize {
                o.class("lang:refused-although-enough-utxos");
            }
            o.key(hash64(&(src, n_utxos)));
            return o;
        }
    };
    o.key(hash64(&(src.clone(), n_utxos)));
    let AnyTir::V1Beta0(t) = &res;
    let mut sels: Vec<(String, Vec<tx3_tir::model::core::UtxoRef>)> = vec![];
    for inp in &t.inputs {
        if let tir::Expression::EvalParam(p) = &inp.utxos {
            if let tir::Param::Set(tir::Expression::UtxoSet(set)) = p.as_ref() {
                sels.push((inp.name.clone(), set.iter().map(|u| u.r#ref.clone()).collect()));
                continue;
            }
        }
        o.violate(Violation::new("language|block-left-unbound", format!("input block {} has no UTxO set after resolution", inp.name)).with_detail(detail.clone()));
        return o;
    }
    if sels.len() != names.len() {
        o.violate(
            Violation::new("language|block-count-differs", format!("{} input blocks written, {} in the resolved template", names.len(), sels.len()))
                .with_detail(detail.clone()),
        );
        return o;
    }
    o.class("lang:resolved");
    let mut shared = false;
    for i in 0..sels.len() {
        for j in i + 1..sels.len() {
            if sels[i].1.iter().any(|r| sels[j].1.contains(r)) {
                shared = true;
                let kind = if names[i] == names[j] {
                    "same-name-twice"
                } else if names[i].eq_ignore_ascii_case(names[j]) {
                    "names-differ-only-in-case"
                } else if names[i].eq_ignore_ascii_case("collateral") || names[j].eq_ignore_ascii_case("collateral") {
                    "block-named-like-collateral"
                } else {
                    "other"
                };
                o.violate(
                    Violation::new(
                        format!("language|utxo-bound-to-two-blocks|{kind}"),
                        format!("input blocks `{}` and `{}` of one transaction are bound to the same UTxO", names[i], names[j]),
                    )
                    .with_detail(detail.clone()),
                );
            }
        }
    }
    // emitted input list = every selected UTxO exactly once
    let selected: usize = sels.iter().map(|s| s.1.len()).sum();
    if let Ok(Ok(reduced)) = crate::engine::panics::catch(|| res.clone().reduce()) {
        let mut c = compiler(&PP::default());
        if let Ok(Ok(compiled)) = crate::engine::panics::catch(|| c.compile(&reduced)) {
            if let Ok(rec) = txdecode::decode_tx(&compiled.payload) {
                if rec.inputs.len() != selected && !shared {
                    o.violate(
                        Violation::new("language|emitted|input-count-differs", format!("{} UTxOs selected, {} inputs emitted", selected, rec.inputs.len()))
                            .with_detail(detail.clone()),
                    );
                }
                o.class("lang:compiled");
            }
        }
    }
    o
}

impl Prop for C04 {
    fn id(&self) -> &'static str {
        "C04"
    }

    fn rule(&self, tier: Tier) -> String {
        format!(
            "complete product: every multiset store of <= 4 UTxOs at one address (lovelace 1..2 x T1 0..1) x every ordered tuple of k <= {} \
             overlapping block types (12 types: single/many, lovelace / token thresholds, equal and overlapping refs, three without `from`: ref-only, token-only, token + lovelace many) x with/without collateral; \
             every assignment of names to source positions (k <= 3); every iteration order of the candidate set of the first block and of the second block. \
             Oracle: pairwise disjoint selections (collateral exempt), every block sound w.r.t. what earlier blocks took, emitted input list = \
             union of selections without duplicates. Language level: programs with 2-3 input blocks named from [a, A, b, aB, Ab, collateral, Collateral, x] (every ordered pair / triple, \
             equal names included) x with/without a collateral block x single/many x 0..4 UTxOs at the party, through parse / analyze / lower / apply_args / resolve / compile: \
             blocks that reach resolution must be bound to disjoint sets and the emitted input count must equal the number selected. Non-trivial = resolution returned (Ok or Err) and was judged; distinct = (store, tuple, collateral).",
            if tier.is_thorough() { 4 } else { 3 }
        )
    }

    fn assumptions(&self) -> Vec<String> {
        vec![
            "no global completeness is asserted (the greedy, name-ordered allocation may fail where a matching exists); the block reported unresolved must have no candidate left given what the blocks before it took".into(),
            "stores and block types outside the alphabets are not covered".into(),
        ]
    }

    fn bound(&self, tier: Tier) -> String {
        format!("k <= {} blocks, stores <= 4 UTxOs", if tier.is_thorough() { 4 } else { 3 })
    }

    fn enumerate(&self, tier: Tier, sink: &mut Sink) {
        let kmax = if tier.is_thorough() { 4 } else { 3 };
        let nt = block_types().len();
        let m = store_contents().len();
        let mut stores: Vec<Vec<usize>> = vec![];
        for n in 0..=4 {
            let mut cur = vec![];
            multisets(m, n, &mut cur, 0, &mut |s| stores.push(s.to_vec()));
        }
        for k in 1..=kmax {
            let total = nt.pow(k as u32);
            for t in 0..total {
                let mut tuple = vec![];
                let mut x = t;
                for _ in 0..k {
                    tuple.push(x % nt);
                    x /= nt;
                }
                for collateral in [false, true] {
                    sink.case(|| json!({"kind": format!("k{k}"), "tuple": tuple, "collateral": collateral, "stores": "all", "perms": k <= 3}));
                }
            }
        }
        let _ = stores;
        // language level: every ordered pair and triple of names (the first two possibly equal) x collateral x single/many x 0..4 UTxOs
        let n = LANG_NAMES.len();
        for a in 0..n {
            for b in 0..n {
                // a == b: two blocks written with the very same name are still two blocks
                for c in (0..=n).filter(|c| *c == n || (*c != a && *c != b)) {
                    let mut names = vec![a, b];
                    if c < n {
                        names.push(c);
                    }
                    for collateral in [false, true] {
                        for many in [false, true] {
                            sink.case(|| json!({"kind": "language", "names": names, "collateral": collateral, "many": many}));
                        }
                    }
                }
            }
        }
    }

    fn run(&self, case: &Value) -> Outcome {
        if case["kind"] == "language" {
            let names: Vec<&str> = case["names"].as_array().map(|a| a.iter().filter_map(|x| x.as_u64().map(|x| LANG_NAMES[x as usize])).collect()).unwrap_or_default();
            let mut total = Outcome::default();
            for n_utxos in 0..=4 {
                let o = run_lang(&names, case["collateral"].as_bool().unwrap_or(false), case["many"].as_bool().unwrap_or(false), n_utxos);
                total.evals += o.evals;
                total.nontrivial.extend(o.nontrivial);
                for (k, v) in o.classes {
                    *total.classes.entry(k).or_default() += v;
                }
                for v in o.violations {
                    if !total.violations.iter().any(|x| x.signature == v.signature) {
                        total.violations.push(v);
                    }
                }
            }
            return total;
        }
        let tuple: Vec<usize> = case["tuple"]
            .as_array()
            .map(|a| a.iter().filter_map(|x| x.as_u64().map(|x| x as usize)).collect())
            .unwrap_or_default();
        let collateral = case["collateral"].as_bool().unwrap_or(false);
        let perms = case["perms"].as_bool().unwrap_or(false);
        let m = store_contents().len();
        let mut total = Outcome::default();
        for n in 0..=4 {
            let mut cur = vec![];
            multisets(m, n, &mut cur, 0, &mut |s| {
                let o = run_case(s, &tuple, collateral, perms);
                total.evals += o.evals;
                total.nontrivial.extend(o.nontrivial);
                for (k, v) in o.classes {
                    *total.classes.entry(k).or_default() += v;
                }
                for (k, v) in o.extra {
                    *total.extra.entry(k).or_default() += v;
                }
                // keep the first violation of each signature with its store
                for v in o.violations {
                    if !total.violations.iter().any(|x| x.signature == v.signature) {
                        total.violations.push(v);
                    }
                }
            });
        }
        total
    }
}
