//! C13 — a program the analyzer accepts can always be lowered.
//!
//! Subjects: every source of the C12 enumeration (token edits of the corpus are the "semantic mutations"
//! drop / duplicate / swap / splice), plus dedicated mutation families over the corpus: every identifier
//! token replaced by every other identifier of the program and by the built-in names (a name of another
//! symbol kind used as a value), every call's arity changed to 0 and +1, every line deleted / duplicated
//! (drop or repeat a field, a directive field, a block), every literal malformed, chains of locals of
//! every length 1..16. Oracle: no analysis errors => lower(p, tx) is Ok for every tx and the facade
//! (Workspace::lower) neither panics nor errs.

use super::c12;
use crate::engine::{hash64, panics, Outcome, Prop, Sink, Tier, Violation};
use crate::gen::tokens;
use serde_json::{json, Value};

pub struct C13;

const BUILTINS: [&str; 10] = ["Ada", "fees", "min_utxo", "tip_slot", "slot_to_time", "time_to_slot", "AnyAsset", "concat", "Int", "Bytes"];

/// hand-written bases covering features the example corpus lacks (spread, variants, policy fields, env)
pub fn extra_bases() -> Vec<(String, String)> {
    vec![
        (
            "base_spread".into(),
            "env {\n    owner: Bytes,\n}\nparty P;\npolicy Pol = 0xABCDEF1234ABCDEF1234ABCDEF1234ABCDEF1234ABCDEF1234ABCDEF1234;\nasset Tok = 0xABCDEF1234ABCDEF1234ABCDEF1234ABCDEF1234ABCDEF1234ABCDEF1234.\"TOK\";\ntype R {\n    a: Int,\n    b: Bytes,\n}\ntype V {\n    C0,\n    C1 {\n        x: Int,\n        y: R,\n    },\n}\ntx t(q: Int, r: UtxoRef) {\n    locals {\n        l1: q + 1,\n        l2: l1 + 2,\n    }\n    input src {\n        from: P,\n        datum_is: R,\n        min_amount: Ada(q) + Tok(1),\n        redeemer: V::C1 {\n            x: l2,\n            y: R {\n                a: 1,\n                b: owner,\n            },\n        },\n    }\n    reference refd {\n        ref: r,\n    }\n    output out {\n        to: P,\n        amount: src - fees,\n        datum: R {\n            b: owner,\n            ...src\n        },\n    }\n    mint {\n        amount: Tok(q),\n        redeemer: V::C0 {},\n    }\n    signers {\n        P,\n    }\n    validity {\n        since_slot: tip_slot(),\n        until_slot: time_to_slot(q),\n    }\n    metadata {\n        674: \"memo\",\n    }\n}\n".into(),
        ),
        (
            "base_policy".into(),
            "party A;\npolicy Full {\n    hash: 0xABCDEF1234ABCDEF1234ABCDEF1234ABCDEF1234ABCDEF1234ABCDEF1234,\n    script: 0x4E4D01000033222220051200120011,\n}\npolicy Refd {\n    hash: 0xABCDEF1234ABCDEF1234ABCDEF1234ABCDEF1234ABCDEF1234ABCDEF1235,\n    ref: 0xABCDEF#0,\n}\ntx t(n: Int) {\n    input i {\n        from: Full,\n        min_amount: Ada(n),\n    }\n    collateral {\n        from: A,\n        min_amount: Ada(5),\n    }\n    output {\n        to: Refd,\n        amount: i - fees,\n    }\n    burn {\n        amount: AnyAsset(Full, \"X\", n),\n        redeemer: (),\n    }\n    cardano::withdrawal {\n        from: A,\n        amount: n,\n        redeemer: (),\n    }\n    cardano::plutus_witness {\n        version: 3,\n        script: 0x4E4D01,\n    }\n    cardano::treasury_donation {\n        coin: n,\n    }\n}\n".into(),
        ),
        (
            // definitions made of names: env vars in a policy and in an asset, both used by a transaction
            "base_env_policy".into(),
            "env {\n    token_policy: Bytes,\n    token_name: Bytes,\n}\nparty P;\npolicy Pol {\n    hash: token_policy,\n}\ntx t(q: Int) {\n    input src {\n        from: Pol,\n        min_amount: Ada(q),\n    }\n    output {\n        to: P,\n        amount: src - fees,\n    }\n    mint {\n        amount: AnyAsset(Pol, token_name, q),\n        redeemer: (),\n    }\n}\n".into(),
        ),
        (
            // (refused today: an env var has no type an asset definition could check)
            "base_env_asset".into(),
            "env {\n    token_policy: Bytes,\n    token_name: Bytes,\n}\nparty P;\nasset Token = token_policy.token_name;\nasset Fixed = 0xABCDEF1234ABCDEF1234ABCDEF1234ABCDEF1234ABCDEF1234ABCDEF1234.token_name;\ntx t(q: Int) {\n    input src {\n        from: P,\n        min_amount: Ada(q) + Fixed(1),\n    }\n    output {\n        to: P,\n        amount: src - fees - Token(q),\n    }\n}\n".into(),
        ),
        (
            // names that collide on purpose: parameters, locals and env vars named like record fields, an index named
            // like a field, an asset and a party named like built-ins, nested constructors of two variant types
            "base_shadow".into(),
            "env {\n    m: Int,\n}\nparty tip_slot_owner;\nasset tip_slot = 0xABCDEF1234ABCDEF1234ABCDEF1234ABCDEF1234ABCDEF1234ABCDEF1234.\"T\";\ntype D {\n    n: Int,\n    m: Int,\n    k: Int,\n}\ntype Inner {\n    A { x: Int, },\n    B { y: Int, },\n}\ntype Outer {\n    A { i: Inner, },\n    B { d: D, },\n    OnlyOuter { y: Int, },\n}\ntx t(xs: List<Int>, n: Int) {\n    locals {\n        k: n + 1,\n    }\n    input src {\n        from: tip_slot_owner,\n        min_amount: tip_slot(n),\n    }\n    output {\n        to: tip_slot_owner,\n        amount: src - fees,\n        datum: Outer::B {\n            d: D {\n                n: xs[n],\n                m: m,\n                k: k,\n            },\n        },\n    }\n    output {\n        to: tip_slot_owner,\n        amount: Ada(1),\n        datum: Outer::A {\n            i: Inner::B {\n                y: n,\n            },\n        },\n    }\n}\n".into(),
        ),
        (
            // definitions made of definitions: a chain of policies that ends in an env var, and one that ends in a literal
            "base_definition_chain".into(),
            "env {\n    h: Bytes,\n}\nparty A;\npolicy P {\n    hash: h,\n}\npolicy Q {\n    hash: P,\n}\npolicy R {\n    hash: Q,\n}\npolicy L0 = 0xABCDEF1234ABCDEF1234ABCDEF1234ABCDEF1234ABCDEF1234ABCDEF1234;\npolicy L1 {\n    hash: L0,\n}\ntx t(q: Int) {\n    input src {\n        from: A,\n        min_amount: Ada(q),\n    }\n    output {\n        to: R,\n        amount: src - fees,\n    }\n    output {\n        to: L1,\n        amount: Ada(q),\n    }\n    mint {\n        amount: AnyAsset(Q, \"T\", q),\n        redeemer: (),\n    }\n}\n".into(),
        ),
        (
            // an optional output (its own analysis rule runs beside that of its fields) and the fields of a built-in
            // type read by name
            "base_optional_output".into(),
            "party A;\nparty B;\nasset Token = 0xABCDEF1234ABCDEF1234ABCDEF1234ABCDEF1234ABCDEF1234ABCDEF1234.\"T\";\ntype Seen {\n    ix: Int,\n    tx: Bytes,\n}\ntx t(q: Int, r: UtxoRef) {\n    input src {\n        from: A,\n        min_amount: Ada(q) + fees,\n    }\n    output ? gift {\n        to: B,\n        amount: Ada(q) + Token(1) + min_utxo(gift),\n    }\n    output {\n        to: A,\n        amount: src - Ada(q) - fees,\n        datum: Seen {\n            ix: r.output_index,\n            tx: r.tx_hash,\n        },\n    }\n}\n".into(),
        ),
        (
            "base_certs".into(),
            "party A;\ntx t(n: Int) {\n    input i {\n        from: A,\n        min_amount: Ada(n),\n    }\n    output {\n        to: A,\n        amount: i - fees,\n    }\n    cardano::vote_delegation_certificate {\n        drep: 0x12345678,\n        stake: 0x87654321,\n    }\n    cardano::publish {\n        to: A,\n        amount: Ada(n),\n        version: 3,\n        script: 0x4E4D01,\n    }\n}".into(),
        ),
        (
            // (refused today: the block is parsed but not supported further down)
            "base_stake_delegation".into(),
            "party A;\ntx u(n: Int) {\n    input i {\n        from: A,\n        min_amount: Ada(n),\n    }\n    output {\n        to: A,\n        amount: i - fees,\n    }\n    cardano::stake_delegation_certificate {\n        pool: 0xAB,\n        stake: 0xCD,\n    }\n}\n".into(),
        ),
    ]
}

pub fn corpus(tier: Tier) -> Vec<(String, String)> {
    let mut v: Vec<(String, String)> = c12::example_files()
        .into_iter()
        .filter(|(n, _)| tier.is_thorough() || !["lang_tour.tx3", "asteria.tx3", "levvy.tx3", "splash.tx3"].contains(&n.as_str()))
        .collect();
    v.extend(extra_bases());
    v
}

fn is_ident(t: &str) -> bool {
    t.chars().next().map(|c| c.is_ascii_alphabetic()).unwrap_or(false) && t.chars().all(|c| c.is_ascii_alphanumeric() || c == '_')
}

const KEYWORDS: [&str; 30] = [
    "tx", "party", "policy", "asset", "type", "env", "input", "output", "locals", "mint", "burn", "signers", "validity", "metadata",
    "collateral", "reference", "cardano", "from", "to", "amount", "datum", "min_amount", "redeemer", "ref", "datum_is", "hash", "script",
    "since_slot", "until_slot", "true",
];

/// the same chain in a transaction that has nothing but locals and a metadata entry (the number of analysis passes
/// has been tied to the number of blocks)
fn bare_chain_source(n: usize) -> String {
    let mut s = String::from("tx t(q: Int) {\n    locals {\n");
    for i in 0..n {
        if i + 1 == n {
            s.push_str(&format!("        l{i}: q,\n"));
        } else {
            s.push_str(&format!("        l{i}: l{} + 1,\n", i + 1));
        }
    }
    s.push_str("    }\n    metadata {\n        1: l0,\n    }\n}\n");
    s
}

fn chain_source(n: usize, start_from_param: bool) -> String {
    let mut s = String::from("party P;\ntx t(q: Int) {\n    locals {\n");
    for i in 0..n {
        if i + 1 == n {
            s.push_str(&format!("        l{i}: {},\n", if start_from_param { "q" } else { "7" }));
        } else {
            s.push_str(&format!("        l{i}: l{} + 1,\n", i + 1));
        }
    }
    s.push_str("    }\n    input src {\n        from: P,\n        min_amount: Ada(l0),\n    }\n    output {\n        to: P,\n        amount: src - fees,\n    }\n}\n");
    s
}

fn lower_err_signature(e: &tx3_lang::lowering::Error) -> String {
    use tx3_lang::lowering::Error as E;
    let word = |s: &str| s.split(|c: char| c == '(' || c == ' ' || c == '{').next().unwrap_or("?").to_string();
    match e {
        E::MissingAnalyzePhase(x) => {
            let kind = if x.contains('(') { word(x) } else { "name".to_string() };
            format!("lower-err|MissingAnalyzePhase|{kind}")
        }
        E::InvalidSymbol(_, expected) => format!("lower-err|InvalidSymbol|expected-{expected}"),
        E::InvalidSymbolType(_, expected) => format!("lower-err|InvalidSymbolType|expected-{expected}"),
        E::InvalidAst(msg) => {
            let head = msg.split(':').next().unwrap_or(msg);
            format!("lower-err|InvalidAst|{}", panics::normalize_message(head))
        }
        E::InvalidProperty(prop, _) => format!("lower-err|InvalidProperty|{}", word(prop)),
        E::MissingRequiredField(field, block) => format!("lower-err|MissingRequiredField|{block}.{field}"),
        E::DecodeHexError(_) => "lower-err|DecodeHexError".to_string(),
    }
}

/// judge one source; `family` qualifies the signatures ("grammar" inputs are only known by signature,
/// "corpus" inputs are listed one by one in the known-findings input list)
pub fn judge(src: &str, family: &str, o: &mut Outcome) {
    crate::engine::set_phase("parse");
    let Ok(Ok(mut program)) = panics::catch(|| tx3_lang::parsing::parse_string(src)) else {
        o.class("rejected-by-parser");
        return;
    };
    crate::engine::set_phase("analyze");
    let Ok(report) = panics::catch(|| tx3_lang::analyzing::analyze(&mut program)) else {
        o.class("analyzer-panic(C12)");
        return;
    };
    if !report.errors.is_empty() {
        o.class("rejected-by-analyzer");
        trace("rejected", src);
        return;
    }
    crate::engine::set_phase("lower");
    let mut ok = true;
    for tx in program.txs.iter() {
        let name = tx.name.value.clone();
        match panics::catch(|| tx3_lang::lowering::lower(&program, &name)) {
            Err(p) => {
                ok = false;
                o.violate(Violation::new(
                    format!("lower-{}|{family}", p.signature()),
                    format!("analysis reported no errors but lowering tx `{name}` panicked at {}:{}: {}", p.file, p.line, crate::engine::first_line(&p.message, 160)),
                ));
            }
            Ok(Err(e)) => {
                ok = false;
                o.violate(Violation::new(
                    format!("{}|{family}", lower_err_signature(&e)),
                    format!("analysis reported no errors but lowering tx `{name}` failed: {e}"),
                ));
            }
            Ok(Ok(_)) => {}
        }
    }
    crate::engine::set_phase("facade");
    let facade = panics::catch(|| {
        let mut ws = tx3_lang::Workspace::from_string(src.to_string());
        ws.lower().map_err(|e| {
            let kind = match &e {
                tx3_lang::Error::Lowering(le) => lower_err_signature(le).replacen("lower-err|", "", 1),
                tx3_lang::Error::Parsing(_) => "Parsing".to_string(),
                tx3_lang::Error::Analyzing(_) => "Analyzing".to_string(),
                tx3_lang::Error::Apply(_) => "Apply".to_string(),
                _ => "other".to_string(),
            };
            (kind, e.to_string())
        })
    });
    match facade {
        Err(p) => {
            ok = false;
            o.violate(Violation::new(
                format!("facade-{}|{family}", p.signature()),
                format!("Workspace::lower panicked for an accepted program: {}", crate::engine::first_line(&p.message, 160)),
            ));
        }
        Ok(Err((kind, e))) => {
            ok = false;
            o.violate(Violation::new(format!("facade-err|{kind}|{family}"), format!("Workspace::lower returned an error for an accepted program: {e}")));
        }
        Ok(Ok(())) => {}
    }
    o.class(if ok { "accepted-and-lowered" } else { "accepted-not-lowerable" });
    trace(if ok { "lowered" } else { "not-lowerable" }, src);
}

/// E2 over the facade: every sequence of `parse` / `analyze` / `lower` calls of length <= 4 on one `Workspace`
/// (re-executed from a fresh instance, the facade cannot be copied). For an accepted program every call returns Ok and
/// whenever `lower` ran the templates are the ones a straight parse / analyze / lower gives; for a refused one `lower`
/// answers with the analysis report. States = (ast held, report held, templates held) after each prefix.
fn judge_facade_sequences(src: &str, o: &mut Outcome) {
    use crate::common::canon::canon_tir;
    let started = std::time::Instant::now();
    let Ok(Ok(mut program)) = panics::catch(|| tx3_lang::parsing::parse_string(src)) else {
        o.class("sequences:not-parseable");
        return;
    };
    let Ok(rep) = panics::catch(|| tx3_lang::analyzing::analyze(&mut program)) else { return };
    // some examples take a second to analyse (the analysed tree holds copies of copies): they get the sequences of
    // length <= 2 only, the others all 120 of length <= 4
    let max_depth = if started.elapsed().as_millis() > 40 { 2 } else { 4 };
    let accepted = rep.errors.is_empty();
    let names: Vec<String> = program.txs.iter().map(|t| t.name.value.clone()).collect();
    let reference: Vec<Option<String>> = names
        .iter()
        .map(|n| if accepted { panics::catch(|| tx3_lang::lowering::lower(&program, n)).ok().and_then(|r| r.ok()).map(|t| canon_tir(&t).to_string()) } else { None })
        .collect();
    if accepted && reference.iter().any(|r| r.is_none()) {
        // not lowerable at all: reported by the plain check
        o.class("sequences:accepted-not-lowerable");
        return;
    }
    const OPS: [&str; 3] = ["parse", "analyze", "lower"];
    let mut states = std::collections::BTreeSet::new();
    let mut sequences = 0u64;
    let mut seqs: Vec<Vec<usize>> = vec![vec![]];
    for _depth in 0..max_depth {
        let mut next = vec![];
        for prefix in &seqs {
            for op in 0..3 {
                let mut s = prefix.clone();
                s.push(op);
                next.push(s);
            }
        }
        for seq in &next {
            sequences += 1;
            o.evals += 1;
            let shown: Vec<&str> = seq.iter().map(|i| OPS[*i]).collect();
            let run = panics::catch(|| {
                let mut ws = tx3_lang::Workspace::from_string(src.to_string());
                let mut results = vec![];
                for op in seq {
                    let r = match *op {
                        0 => ws.parse(),
                        1 => ws.analyze(),
                        _ => ws.lower(),
                    };
                    results.push(r.map_err(|e| match &e {
                        tx3_lang::Error::Lowering(le) => format!("Lowering:{}", lower_err_signature(le)),
                        tx3_lang::Error::Parsing(_) => "Parsing".to_string(),
                        tx3_lang::Error::Analyzing(_) => "Analyzing".to_string(),
                        _ => "other".to_string(),
                    }));
                }
                let tirs: Vec<Option<String>> = names.iter().map(|n| ws.tir(n).map(|t| canon_tir(t).to_string())).collect();
                (results, ws.ast().is_some(), ws.analisis().is_some(), tirs)
            });
            match run {
                Err(p) => o.violate(Violation::new(format!("facade-sequence-{}", p.signature()), format!("{shown:?} panicked: {}", crate::engine::first_line(&p.message, 160)))),
                Ok((results, has_ast, has_report, tirs)) => {
                    states.insert((has_ast, has_report, tirs.iter().any(|t| t.is_some())));
                    for (k, r) in results.iter().enumerate() {
                        let op = OPS[seq[k]];
                        let fine = match (accepted, op, r) {
                            (_, "parse", Ok(())) | (_, "analyze", Ok(())) | (true, "lower", Ok(())) => true,
                            (false, "lower", Err(e)) if e == "Analyzing" => true,
                            _ => false,
                        };
                        if !fine {
                            let what = match r {
                                Ok(()) => "Ok".to_string(),
                                Err(e) => e.clone(),
                            };
                            o.violate(Violation::new(
                                format!("facade-sequence|{}|{op}-answers-{}", if accepted { "accepted-program" } else { "refused-program" }, what.split('|').take(3).collect::<Vec<_>>().join("|")),
                                format!("after {:?} the call {op} answered {what}", &shown[..k]),
                            ));
                            break;
                        }
                    }
                    // templates are current when `lower` ran after the last `parse`; a later `parse` may keep or drop them
                    let last_parse = seq.iter().rposition(|op| *op == 0);
                    let last_lower = seq.iter().rposition(|op| *op == 2);
                    let current = matches!((last_lower, last_parse), (Some(l), Some(p)) if l > p) || (last_lower.is_some() && last_parse.is_none());
                    let dropped = tirs.iter().all(|t| t.is_none());
                    if accepted && last_lower.is_some() && results.iter().all(|r| r.is_ok()) && tirs != reference && (current || !dropped) {
                        o.violate(Violation::new("facade-sequence|templates-differ-from-a-straight-run", format!("after {shown:?} the workspace holds other templates than parse / analyze / lower gives")));
                    }
                }
            }
        }
        seqs = next;
    }
    o.count("facade_sequences", sequences);
    o.max("facade_states", states.len() as u64);
    o.class(format!("sequences:{}-program(depth {max_depth})", if accepted { "accepted" } else { "refused" }));
}

/// maintenance aid: VERIF_C13_TRACE=<dir> appends "<class>\t<source as JSON string>" per judged program
fn trace(class: &str, src: &str) {
    if let Ok(dir) = std::env::var("VERIF_C13_TRACE") {
        use std::io::Write;
        let _ = std::fs::create_dir_all(&dir);
        if let Ok(mut f) = std::fs::OpenOptions::new().create(true).append(true).open(format!("{dir}/{}", std::process::id())) {
            let _ = writeln!(f, "{class}\t{}", serde_json::to_string(src).unwrap_or_default());
        }
    }
}

impl Prop for C13 {
    fn id(&self) -> &'static str {
        "C13"
    }
    fn isolated(&self) -> bool {
        true
    }
    fn rule(&self, tier: Tier) -> String {
        format!(
            "every source of the C12 enumeration ({}) + over the corpus (examples + 9 feature bases): every identifier token x (every other identifier \
             of the program + 10 built-in names); every call arity -> 0 and +1; every line deleted / duplicated; every hex / string / number literal \
             malformed; local chains of every length 1..16 (x2 tails); explicit-state exploration of the facade: every sequence of Workspace::parse / analyze / lower of length <= 4 on one instance, for every program of the corpus as it stands (every call Ok and current templates = those of a straight run on an accepted program; lower = the analysis report on a refused one). Oracle: analyze(p).errors empty => lowering::lower Ok for every tx and \
             Workspace::lower returns Ok without panicking. Non-trivial = the analyzer accepted the program (so lowering was judged); distinct = distinct sources.",
            c12::C12.bound(tier)
        )
    }
    fn assumptions(&self) -> Vec<String> {
        vec![
            "mutations are textual (token / line level) over a fixed corpus; programs needing two simultaneous semantic mutations are only reached through the C12 families".into(),
            "inputs that crash parsing or analysis belong to C12".into(),
        ]
    }
    fn bound(&self, tier: Tier) -> String {
        format!("single mutations over the corpus; {}", c12::C12.bound(tier))
    }
    fn case_kind(&self, case: &Value) -> String {
        c12::C12.case_kind(case)
    }
    fn case_identity(&self, case: &Value) -> String {
        case["src"].as_str().map(|s| s.to_string()).unwrap_or_else(|| case.to_string())
    }

    fn enumerate(&self, tier: Tier, sink: &mut Sink) {
        // definitions that reach themselves through one mention: nothing grows, so they are judged like any program
        // (refused, or lowerable)
        for (name, src, m) in c12::cycle_shapes() {
            if m == 1 {
                sink.case(|| json!({"kind": name, "judge_cycle": true, "src": src}));
            }
        }
        // the facade as a state machine, over every program of the corpus as it stands (accepted ones, and the refused
        // `semantic_errors`)
        for (name, src) in corpus(Tier::Thorough) {
            sink.case(|| json!({"kind": "facade-sequences", "file": name, "src": src}));
        }
        for n in 1..=16usize {
            for p in [false, true] {
                sink.case(|| json!({"kind": "local-chain", "length": n, "src": chain_source(n, p)}));
            }
            sink.case(|| json!({"kind": "local-chain-bare", "length": n, "src": bare_chain_source(n)}));
        }
        for (name, src) in corpus(tier) {
            let toks: Vec<String> = tokens::lex(&src).into_iter().map(|t| t.text).collect();
            let mut idents: Vec<String> = toks.iter().filter(|t| is_ident(t) && !KEYWORDS.contains(&t.as_str())).cloned().collect();
            idents.sort();
            idents.dedup();
            idents.extend(BUILTINS.iter().map(|s| s.to_string()));
            idents.dedup();
            // identifier substitution
            for (i, t) in toks.iter().enumerate() {
                if !is_ident(t) || KEYWORDS.contains(&t.as_str()) {
                    continue;
                }
                for r in idents.iter() {
                    if r != t {
                        sink.case(|| {
                            let mut d = toks.clone();
                            d[i] = r.clone();
                            json!({"kind": "ident-subst", "file": name, "token": i, "from": t, "to": r, "src": tokens::join(&d)})
                        });
                    }
                }
            }
            // call arity
            for i in 0..toks.len() {
                if is_ident(&toks[i]) && toks.get(i + 1).map(|t| t == "(").unwrap_or(false) {
                    // find the matching parenthesis
                    let mut depth = 0;
                    let mut close = None;
                    for (j, t) in toks.iter().enumerate().skip(i + 1) {
                        if t == "(" {
                            depth += 1;
                        }
                        if t == ")" {
                            depth -= 1;
                            if depth == 0 {
                                close = Some(j);
                                break;
                            }
                        }
                    }
                    if let Some(j) = close {
                        sink.case(|| {
                            let mut d = toks[..=i + 1].to_vec();
                            d.extend_from_slice(&toks[j..]);
                            json!({"kind": "arity-zero", "file": name, "token": i, "src": tokens::join(&d)})
                        });
                        sink.case(|| {
                            let mut d = toks[..j].to_vec();
                            if j > i + 2 {
                                d.push(",".into());
                            }
                            d.push("1".into());
                            d.extend_from_slice(&toks[j..]);
                            json!({"kind": "arity-plus-one", "file": name, "token": i, "src": tokens::join(&d)})
                        });
                    }
                }
                if toks[i] == "()" && i > 0 && is_ident(&toks[i - 1]) {
                    sink.case(|| {
                        let mut d = toks.clone();
                        d[i] = "( 1 )".into();
                        json!({"kind": "arity-plus-one", "file": name, "token": i, "src": tokens::join(&d)})
                    });
                }
            }
            // literal malformation
            for (i, t) in toks.iter().enumerate() {
                let alts: Vec<String> = if t.starts_with("0x") && !t.contains('#') {
                    vec![format!("{t}A"), "0x0".into(), format!("{t}{}", "AB".repeat(40))]
                } else if t.starts_with('"') {
                    vec!["\"\"".into(), format!("\"{}\"", "x".repeat(80))]
                } else if t.chars().next().map(|c| c.is_ascii_digit()).unwrap_or(false) {
                    vec!["-1".into(), "0".into(), "9223372036854775807".into()]
                } else {
                    vec![]
                };
                for a in alts {
                    sink.case(|| {
                        let mut d = toks.clone();
                        d[i] = a.clone();
                        json!({"kind": "literal", "file": name, "token": i, "to": a, "src": tokens::join(&d)})
                    });
                }
            }
            // line level: drop / duplicate
            let lines: Vec<&str> = src.lines().collect();
            for i in 0..lines.len() {
                if lines[i].trim().is_empty() {
                    continue;
                }
                sink.case(|| {
                    let mut d = lines.clone();
                    d.remove(i);
                    json!({"kind": "line-delete", "file": name, "line": i + 1, "src": d.join("\n")})
                });
                sink.case(|| {
                    let mut d = lines.clone();
                    d.insert(i, lines[i]);
                    json!({"kind": "line-duplicate", "file": name, "line": i + 1, "src": d.join("\n")})
                });
            }
        }
        c12::C12.enumerate(tier, sink);
    }

    fn run(&self, case: &Value) -> Outcome {
        let mut o = Outcome::default();
        let generated;
        let src = match case["src"].as_str() {
            Some(s) => s,
            None => {
                generated = c12::nesting_source(case["shape"].as_u64().unwrap_or(0) as usize, 6);
                &generated
            }
        };
        o.evals = 1;
        if c12::reference_cycle_can_grow(src) {
            // analysis cost explodes on self-referring locals / inputs: C12's open finding, not re-litigated here
            o.class("skipped-reference-cycle(C12)");
            return o;
        }
        if case["kind"] == "facade-sequences" {
            judge_facade_sequences(src, &mut o);
            o.key(hash64(&("sequences", src)));
            return o;
        }
        let family = if case["kind"].as_str().unwrap_or("").starts_with("grammar") { "grammar" } else { "corpus" };
        judge(src, family, &mut o);
        if o.classes.keys().any(|k| k.starts_with("accepted")) {
            o.key(hash64(src));
        }
        o
    }
}
