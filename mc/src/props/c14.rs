//! C14 — the back end is total: resolving yields a transaction or an error, never a panic.
//!
//! Subjects: every tirgen tree (decodable IR a client may send) and every tx of the corpus, driven through
//! resolve_tx and through the individual stages (apply_args, apply_fees, reduce, compiler ops, apply_inputs,
//! reduce, compile - the last also on non-constant IR). Arguments: per-type boundary alphabets incl. every
//! byte length 0..64 and wrong-typed values; stores with odd UTxOs; protocol parameters incl. missing cost
//! models and 0 / 2^64-1 coefficients.

use super::c06::sample_utxo;
use super::c13;
use crate::common::pipeline::{base_address, compiler, lower_source, PP};
use crate::common::store::MemStore;
use crate::common::{boundary_ints, tirb};
use crate::engine::{hash64, panics, Outcome, Prop, Sink, Tier, Violation};
use crate::gen::tirgen::{self, Kind, Probe, TreeId};
use serde_json::{json, Value};
use std::collections::BTreeMap;
use tx3_tir::compile::Compiler as _;
use tx3_tir::encoding::AnyTir;
use tx3_tir::model::assets::CanonicalAssets;
use tx3_tir::model::core::{Type, Utxo, UtxoRef};
use tx3_tir::model::v1beta0 as tir;
use tx3_tir::reduce::{find_params, find_queries, Apply as _, ArgMap, ArgValue};
use tx3_tir::Node as _;

pub struct C14;

fn arg_name(a: &ArgValue) -> String {
    match a {
        ArgValue::Int(n) => format!("Int({n})"),
        ArgValue::Bool(b) => format!("Bool({b})"),
        ArgValue::String(s) => format!("String(len {})", s.len()),
        ArgValue::Bytes(b) => format!("Bytes(len {})", b.len()),
        ArgValue::Address(b) => format!("Address(len {})", b.len()),
        ArgValue::UtxoSet(s) => format!("UtxoSet({})", s.len()),
        ArgValue::UtxoRef(r) => format!("UtxoRef(txid len {})", r.txid.len()),
    }
}

/// boundary alphabet for one declared type; the first element is the comfortable default
pub fn alphabet(ty: &Type, tier: Tier) -> Vec<ArgValue> {
    let mut v: Vec<ArgValue> = vec![];
    let ints = || boundary_ints().into_iter().map(ArgValue::Int).collect::<Vec<_>>();
    let lens: Vec<usize> = if tier.is_thorough() { (0..=64).collect() } else { vec![0, 1, 27, 28, 29, 31, 32, 33, 56, 57, 58, 64] };
    match ty {
        Type::Int => {
            v.push(ArgValue::Int(5));
            v.extend(ints());
        }
        Type::Bool => {
            v.push(ArgValue::Bool(true));
            v.push(ArgValue::Bool(false));
        }
        Type::Bytes => {
            v.push(ArgValue::Bytes(vec![0xAA; 28]));
            v.extend(lens.iter().map(|l| ArgValue::Bytes(vec![0x5A; *l])));
        }
        Type::Address => {
            v.push(ArgValue::Address(base_address(2, 0)));
            v.extend(lens.iter().map(|l| ArgValue::Address(vec![0x01; *l])));
            v.push(ArgValue::Address(vec![0x82; 29])); // byron-style header
            v.push(ArgValue::Address(vec![0xe0; 29])); // stake address
        }
        Type::UtxoRef => {
            v.push(ArgValue::UtxoRef(UtxoRef { txid: vec![6; 32], index: 0 }));
            for l in [0usize, 1, 31, 33] {
                v.push(ArgValue::UtxoRef(UtxoRef { txid: vec![6; l], index: u32::MAX }));
            }
        }
        _ => {
            v.push(ArgValue::Int(5));
            v.extend(ints().into_iter().take(5));
        }
    }
    // wrong-typed values: one of each kind
    v.push(ArgValue::String("0xzz#a".into()));
    v.push(ArgValue::String(String::new()));
    v.push(ArgValue::Bool(true));
    v.push(ArgValue::Int(-1));
    v.push(ArgValue::Bytes(vec![]));
    v.push(ArgValue::Address(vec![]));
    v.push(ArgValue::UtxoRef(UtxoRef { txid: vec![], index: 0 }));
    v.push(ArgValue::UtxoSet([sample_utxo(3)].into_iter().collect()));
    v.push(ArgValue::UtxoSet(Default::default()));
    v
}

pub fn stores() -> Vec<(&'static str, Vec<Utxo>)> {
    let a = base_address(1, 0);
    let big = |n: i128| tirb::utxo(UtxoRef { txid: vec![0x61; 32], index: 0 }, &a, CanonicalAssets::from_naked_amount(n));
    let mut odd = vec![];
    for (i, (pl, nl, amt)) in [(0usize, 0usize, 0i128), (28, 0, -1), (28, 32, i128::MAX), (1, 64, 1), (64, 33, 1 << 64), (27, 1, 5), (29, 1, 5)].iter().enumerate() {
        let mut u = tirb::utxo(
            UtxoRef { txid: vec![0x70 + i as u8; 32], index: i as u32 },
            &a,
            CanonicalAssets::from_naked_amount(3_000_000) + CanonicalAssets::from_asset(Some(&vec![9; *pl]), Some(&vec![8; *nl]), *amt),
        );
        u.datum = Some(match i % 4 {
            0 => tir::Expression::None,
            1 => tir::Expression::Number(i128::MIN),
            2 => tir::Expression::Struct(tir::StructExpr { constructor: 200, fields: vec![tir::Expression::String("s".into())] }),
            _ => tir::Expression::UtxoRefs(vec![]),
        });
        odd.push(u);
    }
    // outputs of one transaction: the same txid under several indices (one beyond 16 bits)
    let sibling = |ix: u32| tirb::utxo(UtxoRef { txid: vec![0x62; 32], index: ix }, &a, CanonicalAssets::from_naked_amount(40_000_000));
    vec![
        ("ample", vec![sample_utxo(0x51), sample_utxo(0x52), big(90_000_000)]),
        ("empty", vec![]),
        ("odd-utxos", odd),
        ("extreme-amounts", vec![big(i128::MAX), big(0), big(-5)]),
        ("siblings", vec![sibling(2), sibling(0), sibling(70_000), sibling(1)]),
    ]
}

pub fn pparams() -> Vec<(&'static str, PP)> {
    let d = PP { extra_fees: None, ..PP::default() };
    vec![
        ("default", d.clone()),
        ("no-cost-models", PP { cost_models: 0, ..d.clone() }),
        ("only-v1-cost-model", PP { cost_models: 0b001, ..d.clone() }),
        ("zero-fees", PP { coefficient: 0, constant: 0, coins_per_utxo_byte: 0, extra_fees: Some(0), ..d.clone() }),
        ("huge-fees", PP { coefficient: u64::MAX, constant: u64::MAX, coins_per_utxo_byte: u64::MAX, extra_fees: Some(u64::MAX), ..d.clone() }),
        ("mainnet", PP { network: 1, ..d }),
    ]
}

/// Drives one (template, args, store, pparams) through every back-end entry point.
pub fn drive(tx: &tir::Tx, args: &ArgMap, store_utxos: &[Utxo], pp: &PP, o: &mut Outcome, detail: &Value, qual: &str) {
    let mut report = |o: &mut Outcome, stage: &str, p: panics::PanicInfo| {
        o.class(format!("panic:{stage}"));
        o.violate(
            Violation::new(format!("{}|{qual}", p.signature()), format!("{stage} panicked at {}:{}: {}", p.file, p.line, crate::engine::first_line(&p.message, 160)))
                .with_detail(detail.clone()),
        );
    };
    // 1. the service entry point
    crate::engine::set_phase("resolve");
    let store = MemStore::new(store_utxos.to_vec());
    let mut comp = compiler(pp);
    o.evals += 1;
    match panics::catch(|| pollster::block_on(tx3_resolver::resolve_tx(AnyTir::V1Beta0(tx.clone()), args, &mut comp, &store, 3))) {
        Ok(Ok(_)) => o.class("resolve:ok"),
        Ok(Err(_)) => o.class("resolve:err"),
        Err(p) => report(o, "resolve_tx", p),
    }
    // 2. the stages one by one, continuing past errors where a value is still at hand
    crate::engine::set_phase("stages");
    let mut comp = compiler(pp);
    // the k-th query is handed two UTxOs starting at the k-th of the store (wrapping): blocks overlap in one UTxO and
    // differ in the other
    let inputs: BTreeMap<String, std::collections::HashSet<Utxo>> = find_queries(tx)
        .keys()
        .enumerate()
        .map(|(k, name)| (name.clone(), store_utxos.iter().cycle().skip(k).take(2.min(store_utxos.len())).cloned().collect()))
        .collect();
    let mut cur = tx.clone();
    macro_rules! stage {
        ($name:expr, $f:expr) => {{
            o.evals += 1;
            let input = cur.clone();
            match panics::catch(|| $f(input)) {
                Ok(Ok(next)) => cur = next,
                Ok(Err(_)) => {}
                Err(p) => report(o, $name, p),
            }
        }};
    }
    stage!("apply_args", |t: tir::Tx| t.apply_args(args));
    stage!("apply_fees", |t: tir::Tx| t.apply_fees(170_000));
    stage!("reduce", |t: tir::Tx| t.reduce());
    let before_ops = cur.clone();
    stage!("compiler-ops", |t: tir::Tx| t.apply(&mut comp));
    stage!("apply_inputs", |t: tir::Tx| t.apply_inputs(&inputs));
    stage!("reduce", |t: tir::Tx| t.reduce());
    o.evals += 1;
    match panics::catch(|| (cur.is_constant(), find_params(&cur).len())) {
        Ok(_) => {}
        Err(p) => report(o, "is_constant/find_params", p),
    }
    o.evals += 1;
    match panics::catch(|| comp.compile(&AnyTir::V1Beta0(cur.clone()))) {
        Ok(Ok(_)) => o.class("compile:ok"),
        Ok(Err(_)) => o.class("compile:err"),
        Err(p) => report(o, "compile", p),
    }
    // 3. a second round on the same instance, as the resolver's loop does: the compiler ops now see the body the
    // first round left behind (whatever it holds - no outputs at all, fewer outputs than an index asks for)
    cur = before_ops;
    stage!("compiler-ops(second round)", |t: tir::Tx| t.apply(&mut comp));
    stage!("apply_inputs", |t: tir::Tx| t.apply_inputs(&inputs));
    stage!("reduce", |t: tir::Tx| t.reduce());
    o.evals += 1;
    match panics::catch(|| comp.compile(&AnyTir::V1Beta0(cur.clone()))) {
        Ok(_) => {}
        Err(p) => report(o, "compile(second round)", p),
    }
}

/// the same template with other output shapes: none at all, and every output optional with nothing in it (such
/// outputs are dropped from the body)
fn output_shapes(tx: &tir::Tx) -> Vec<(&'static str, tir::Tx)> {
    let mut none = tx.clone();
    none.outputs.clear();
    let mut vanishing = tx.clone();
    for out in vanishing.outputs.iter_mut() {
        out.optional = true;
        out.amount = tirb::assets(vec![tirb::lovelace(0)]);
    }
    vec![("no-outputs", none), ("vanishing-outputs", vanishing)]
}

/// chain-specific directives and the keys the compiler reads from them
const DIRECTIVES: [(&str, &[&str]); 6] = [
    ("withdrawal", &["credential", "amount", "redeemer"]),
    ("vote_delegation_certificate", &["drep", "stake"]),
    ("plutus_witness", &["version", "script"]),
    ("native_witness", &["script"]),
    ("cardano_publish", &["to", "amount", "datum", "version", "script"]),
    ("treasury_donation", &["coin"]),
];

/// constants of every kind, with sizes around what hashes, addresses and amounts are expected to have
fn leaves() -> Vec<(String, tir::Expression)> {
    use tir::Expression as E;
    let mut v: Vec<(String, E)> = vec![
        ("None".into(), E::None),
        ("Bool".into(), E::Bool(true)),
        ("String".into(), E::String("0xzz#a".into())),
        ("String-empty".into(), E::String(String::new())),
        ("List-empty".into(), E::List(vec![])),
        ("UtxoRefs-empty".into(), E::UtxoRefs(vec![])),
        ("UtxoSet-empty".into(), E::UtxoSet(Default::default())),
        ("Assets-empty".into(), E::Assets(vec![])),
        ("Assets-amount-is-assets".into(), tirb::assets(vec![tir::AssetExpr { policy: E::None, asset_name: E::None, amount: tirb::assets(vec![tirb::lovelace(5)]) }])),
        ("Assets-amount-is-bytes".into(), tirb::assets(vec![tir::AssetExpr { policy: E::None, asset_name: E::None, amount: E::Bytes(vec![1]) }])),
        ("Assets-policy-is-number".into(), tirb::assets(vec![tir::AssetExpr { policy: E::Number(1), asset_name: E::Number(2), amount: E::Number(3) }])),
        // one asset class listed twice: each entry fits the ledger's field, the sum does not (or cancels)
        ("Assets-lovelace-twice-sum-over-u64".into(), tirb::assets(vec![tirb::lovelace(1 << 63), tirb::lovelace(1 << 63)])),
        ("Assets-token-twice-sum-over-u64".into(), tirb::assets(vec![tirb::token(&[7; 28], b"T", 1 << 63), tirb::token(&[7; 28], b"T", 1 << 63)])),
        ("Assets-lovelace-twice-sum-over-i64".into(), tirb::assets(vec![tirb::lovelace((1 << 62) + 1), tirb::lovelace(1 << 62)])),
        ("Assets-lovelace-twice-sum-over-i128".into(), tirb::assets(vec![tirb::lovelace(i128::MAX), tirb::lovelace(i128::MAX)])),
        ("Assets-lovelace-twice-cancelling".into(), tirb::assets(vec![tirb::lovelace(5), tirb::lovelace(-5)])),
        ("Assets-token-twice-cancelling".into(), tirb::assets(vec![tirb::lovelace(2_000_000), tirb::token(&[7; 28], b"T", 5), tirb::token(&[7; 28], b"T", -5)])),
        ("Struct".into(), E::Struct(tir::StructExpr { constructor: 200, fields: vec![E::Number(1)] })),
        ("Map".into(), E::Map(vec![(E::Number(1), E::Number(2))])),
    ];
    // text long enough for any message that quotes only its beginning, with wide characters at every alignment
    for pad in 0..4usize {
        v.push((format!("String(wide, pad {pad})"), E::String(format!("{}{}", "x".repeat(pad), "é".repeat(80)))));
        v.push((format!("String(emoji, pad {pad})"), E::String(format!("{}{}", "x".repeat(pad), "😀".repeat(40)))));
    }
    for n in [0i128, 1, 2, -1, 3, 4, 255, 256, 257, 259, 1 << 32, 1 << 63, 1 << 64, i128::MAX, i128::MIN] {
        v.push((format!("Number({n})"), E::Number(n)));
    }
    for l in [0usize, 1, 4, 27, 28, 29, 32, 33, 56, 57, 58, 64] {
        v.push((format!("Hash(len {l})"), E::Hash(vec![0x5A; l])));
        v.push((format!("Bytes(len {l})"), E::Bytes(vec![0x5A; l])));
        v.push((format!("Address(len {l})"), E::Address(vec![0x01; l])));
        v.push((format!("Address-stake(len {l})"), E::Address(std::iter::once(0xe0).chain(std::iter::repeat(7).take(l.saturating_sub(1))).collect())));
    }
    v
}

/// a constant transaction with one directive whose `key` holds the leaf and whose other keys hold usual values
fn directive_tx(name: &str, keys: &[&str], key: &str, leaf: tir::Expression) -> tir::Tx {
    use tir::Expression as E;
    let mut tx = tirgen::place(0, tirb::assets(vec![tirb::lovelace(200_000)]));
    let usual = |k: &str| -> E {
        match k {
            "credential" | "stake" => E::Address(crate::common::pipeline::stake_address(6, 0)),
            "to" => E::Address(base_address(2, 0)),
            "amount" if name == "withdrawal" => E::Number(10),
            "amount" => tirb::assets(vec![tirb::lovelace(2_000_000)]),
            "coin" => E::Number(5),
            "version" => E::Number(3),
            "script" => E::Bytes(vec![0x46, 0x01, 0x01, 0x00]),
            "drep" => E::Bytes(vec![9; 28]),
            "redeemer" | "datum" => E::None,
            _ => E::None,
        }
    };
    // the optional keys (`redeemer`, `datum`) are left out unless they hold the leaf: a `None` there would end the
    // compilation of the directive before its other keys are looked at
    let data: std::collections::HashMap<String, E> = keys
        .iter()
        .filter(|k| **k == key || !matches!(**k, "redeemer" | "datum"))
        .map(|k| (k.to_string(), if *k == key { leaf.clone() } else { usual(k) }))
        .collect();
    tx.adhoc.push(tir::AdHocDirective { name: name.to_string(), data });
    tx
}

const PROBES: [Probe; 5] = [Probe::Value, Probe::Query, Probe::Fees, Probe::QueryWithValue, Probe::TipSlot];

fn kind_type(k: Kind) -> Type {
    match k {
        Kind::Num | Kind::Any => Type::Int,
        Kind::Bytes => Type::Bytes,
        Kind::Address => Type::Address,
        Kind::Refs => Type::UtxoRef,
        Kind::Assets => Type::AnyAsset,
        Kind::Utxos => Type::Utxo,
    }
}

impl Prop for C14 {
    fn id(&self) -> &'static str {
        "C14"
    }
    fn isolated(&self) -> bool {
        true
    }
    fn rule(&self, tier: Tier) -> String {
        format!(
            "IR level: every tirgen tree ({} contexts{} x 5 probes x {} placements) x every value of the probe's boundary alphabet (37 integers, byte / \
             address lengths {}, utxo-ref txid lengths, 9 wrong-typed values) x 5 stores (one of sibling outputs of one transaction; the k-th query gets two UTxOs starting at the k-th) x 6 protocol-parameter sets (full product of alphabet with the \
             default store/pparams; stores x pparams with the default value). Constants of every kind (asset lists naming one class twice - overflowing and cancelling sums - among them) and of sizes around 28 / 29 / 32 / 57 bytes in each of the 19 fields and in every key of every chain-specific directive; every directive with every subset of its keys present; signers and reference lists of every sequence of length <= 4 over three items (repeats in every position); chains of 8 .. 64 operations over an input / a parameter that is not known yet; two-level trees whose outer context computes with its operand. Language level: every tx of the corpus x every parameter x its boundary \
             alphabet (one non-default argument at a time{}) x stores x pparams. Each combination is driven through resolve_tx and through \
             apply_args / apply_fees / reduce / compiler ops / apply_inputs / reduce / compile (continuing after errors) and a second round of compiler ops / compile on the same instance; every template also with its outputs removed and with every output optional and empty. Oracle: every call returns \
             Ok or Err. Non-trivial = at least one back-end call executed; distinct = (subject, argument, store, pparams).",
            tirgen::contexts().len(),
            if tier.is_thorough() { " to depth 2" } else { " to depth 1" },
            tirgen::PLACEMENTS.len(),
            if tier.is_thorough() { "0..64" } else { "{0,1,27..29,31..33,56..58,64}" },
            if tier.is_thorough() { ", all pairs for the first two parameters" } else { "" }
        )
    }
    fn assumptions(&self) -> Vec<String> {
        vec![
            "panic signatures = enclosing tx3 function + normalised message; two panics in one function with one message are one finding".into(),
            "trees deeper than the stated depth and more than two simultaneous non-default arguments are not covered".into(),
        ]
    }
    fn bound(&self, tier: Tier) -> String {
        format!("tree depth {}; one (thorough: two) non-default argument(s)", if tier.is_thorough() { 2 } else { 1 })
    }

    fn enumerate(&self, tier: Tier, sink: &mut Sink) {
        let n = tirgen::contexts().len();
        let np = tirgen::PLACEMENTS.len();
        for p in 0..PROBES.len() {
            for placement in 0..np {
                sink.case(|| json!({"kind": "ir", "probe": p, "placement": placement}));
                for i in 0..n {
                    sink.case(|| json!({"kind": "ir", "probe": p, "placement": placement, "inner": i}));
                }
            }
        }
        for (name, src) in c13::corpus(tier) {
            sink.case(|| json!({"kind": "program", "file": name, "src": src}));
        }
        // constants of every kind and of odd sizes in every field and in every key of every chain-specific directive
        for placement in 0..np {
            sink.case(|| json!({"kind": "leaves", "placement": placement}));
        }
        for (d, (_, keys)) in DIRECTIVES.iter().enumerate() {
            for k in 0..keys.len() {
                sink.case(|| json!({"kind": "directive-leaves", "directive": d, "key": k}));
            }
        }
        // every directive with every subset of its keys present (a key that is missing is another shape than a key
        // that holds nothing), and lists of signers / references / collateral refs with repeats in every position
        for (d, _) in DIRECTIVES.iter().enumerate() {
            sink.case(|| json!({"kind": "directive-subsets", "directive": d}));
        }
        sink.case(|| json!({"kind": "repeated-items"}));
        // long chains of operations over something that is not known yet (a change output that subtracts n terms from
        // an input, n additions over a parameter): every stage has to come back in time however long the chain is
        for n in [8usize, 16, 24, 32, 48, 64] {
            for shape in 0..4usize {
                sink.case(|| json!({"kind": "long-chain", "length": n, "shape": shape}));
            }
        }
        if !tier.is_thorough() {
            // two-level trees whose outer context computes with its operand (arithmetic, concatenation, a query's
            // threshold): one drive each with comfortable arguments
            let cs = tirgen::contexts();
            let outer: Vec<usize> = (0..n)
                .filter(|i| {
                    let l = cs[*i].label;
                    l.starts_with("Add") || l.starts_with("Sub") || l.starts_with("Negate") || l.starts_with("Concat") || l.starts_with("Query.min_amount") || l.starts_with("Property(")
                })
                .collect();
            for p in 0..PROBES.len() {
                for placement in 0..np {
                    for a in &outer {
                        for b in 0..n {
                            sink.case(|| json!({"kind": "ir", "probe": p, "placement": placement, "inner": b, "outer": a, "light": true}));
                        }
                    }
                }
            }
        }
        if tier.is_thorough() {
            for p in 0..PROBES.len() {
                for placement in 0..np {
                    for a in 0..n {
                        for b in 0..n {
                            sink.case(|| json!({"kind": "ir", "probe": p, "placement": placement, "inner": b, "outer": a}));
                        }
                    }
                }
            }
        }
    }

    fn run(&self, case: &Value) -> Outcome {
        let mut o = Outcome::default();
        let tier = if case["thorough"].as_bool().unwrap_or(false) { Tier::Thorough } else { Tier::Quick };
        let all_stores = stores();
        let all_pp = pparams();
        if case["kind"] == "program" {
            let src = case["src"].as_str().unwrap_or("");
            let Ok(Ok(txs)) = panics::catch(|| lower_source(src)) else {
                o.class("corpus-program-not-lowerable");
                return o;
            };
            for (name, tx) in txs {
                let params = find_params(&tx);
                let defaults: ArgMap = params.iter().map(|(k, ty)| (k.clone(), alphabet(ty, tier)[0].clone())).collect();
                let qual = "language-level";
                // stores x pparams with default arguments
                for (sn, st) in &all_stores {
                    for (pn, pp) in &all_pp {
                        let detail = json!({"file": case["file"], "tx": name, "args": "defaults", "store": sn, "pparams": pn});
                        drive(&tx, &defaults, st, pp, &mut o, &detail, qual);
                        o.key(hash64(&(src, &name, sn, pn)));
                    }
                }
                // one non-default argument at a time
                for (p, ty) in params.iter() {
                    for (vi, val) in alphabet(ty, tier).into_iter().enumerate().skip(1) {
                        let mut args = defaults.clone();
                        let shown = arg_name(&val);
                        args.insert(p.clone(), val);
                        for (sn, st) in all_stores.iter().take(2) {
                            let detail = json!({"file": case["file"], "tx": name, "param": p, "value": shown, "store": sn});
                            drive(&tx, &args, st, &all_pp[0].1, &mut o, &detail, qual);
                        }
                        o.key(hash64(&(src, &name, p, vi)));
                    }
                }
                for (shape, variant) in output_shapes(&tx) {
                    drive(&variant, &defaults, &all_stores[0].1, &all_pp[0].1, &mut o, &json!({"file": case["file"], "tx": name, "outputs": shape}), qual);
                    o.key(hash64(&(src, &name, shape)));
                }
                // a missing argument and an empty argument map
                drive(&tx, &ArgMap::new(), &all_stores[0].1, &all_pp[0].1, &mut o, &json!({"file": case["file"], "tx": name, "args": "none"}), qual);
            }
            return o;
        }
        if case["kind"] == "directive-subsets" {
            use tir::Expression as E;
            let (dname, keys) = DIRECTIVES[case["directive"].as_u64().unwrap_or(0) as usize];
            for mask in 0..(1u32 << keys.len()) {
                let mut tx = directive_tx(dname, keys, "", E::None);
                let d = tx.adhoc.last_mut().unwrap();
                d.data.clear();
                for (i, k) in keys.iter().enumerate() {
                    if mask & (1 << i) != 0 {
                        let v = match *k {
                            "redeemer" | "datum" => E::Number(1),
                            other => directive_tx(dname, keys, "", E::None).adhoc.last().unwrap().data.get(other).cloned().unwrap_or(E::None),
                        };
                        d.data.insert(k.to_string(), v);
                    }
                }
                let present: Vec<&str> = keys.iter().enumerate().filter(|(i, _)| mask & (1 << i) != 0).map(|(_, k)| *k).collect();
                drive(&tx, &ArgMap::new(), &all_stores[0].1, &all_pp[0].1, &mut o, &json!({"directive": dname, "keys-present": present}), "ir-level");
                o.key(hash64(&(dname, mask)));
            }
            return o;
        }
        if case["kind"] == "long-chain" {
            let n = case["length"].as_u64().unwrap_or(8) as usize;
            let shape = case["shape"].as_u64().unwrap_or(0) as usize;
            let chain = |open: &str, step: &str| -> String { format!("{open}{}", step.repeat(n)) };
            let (amount, datum) = match shape {
                0 => (chain("src - fees", " - Ada(1)"), "1".to_string()),
                1 => (chain("src - fees", " - Ada(q)"), "1".to_string()),
                2 => ("src - fees".to_string(), chain("q", " + 1")),
                _ => ("src - fees".to_string(), chain("q", " - q")),
            };
            let src = format!("party A;\ntx t(q: Int) {{\n    input src {{\n        from: A,\n        min_amount: fees,\n    }}\n    output {{\n        to: A,\n        amount: {amount},\n        datum: {datum},\n    }}\n}}\n");
            if let Ok(Ok(txs)) = panics::catch(|| lower_source(&src)) {
                for (_, tx) in txs {
                    let params = find_params(&tx);
                    let args: ArgMap = params.iter().map(|(k, ty)| (k.clone(), alphabet(ty, tier)[0].clone())).collect();
                    drive(&tx, &args, &all_stores[0].1, &all_pp[0].1, &mut o, &json!({"long-chain": n, "shape": shape}), "language-level");
                    // the stages in the order the resolver runs them, without the arguments first (a template is reduced
                    // before its inputs are known)
                    drive(&tx, &ArgMap::new(), &all_stores[0].1, &all_pp[0].1, &mut o, &json!({"long-chain": n, "shape": shape, "args": "none"}), "language-level");
                }
            } else {
                o.class("long-chain-not-lowerable");
            }
            o.key(hash64(&("long-chain", n, shape)));
            return o;
        }
        if case["kind"] == "repeated-items" {
            use tir::Expression as E;
            // all sequences of length 0..=4 over two items (and one of another size)
            let items: [Vec<u8>; 3] = [vec![0x41; 28], vec![0x42; 28], vec![0x43; 5]];
            let mut seqs: Vec<Vec<usize>> = vec![vec![]];
            let mut frontier: Vec<Vec<usize>> = vec![vec![]];
            for _ in 0..4 {
                let mut next = vec![];
                for s in &frontier {
                    for i in 0..3 {
                        let mut t = s.clone();
                        t.push(i);
                        next.push(t);
                    }
                }
                seqs.extend(next.iter().cloned());
                frontier = next;
            }
            for seq in seqs {
                let mut tx = tirgen::place(0, tirb::assets(vec![tirb::lovelace(200_000)]));
                tx.signers = Some(tir::Signers { signers: seq.iter().map(|i| E::Bytes(items[*i].clone())).collect() });
                let refs: Vec<UtxoRef> = seq.iter().map(|i| UtxoRef { txid: vec![0x60 + *i as u8; 32], index: *i as u32 }).collect();
                tx.references = vec![E::UtxoRefs(refs.clone()), E::UtxoRefs(refs)];
                drive(&tx, &ArgMap::new(), &all_stores[0].1, &all_pp[0].1, &mut o, &json!({"signers / references": seq}), "ir-level");
                o.key(hash64(&("repeated", seq)));
            }
            return o;
        }
        if case["kind"] == "leaves" || case["kind"] == "directive-leaves" {
            for (name, leaf) in leaves() {
                let (tx, at) = if case["kind"] == "leaves" {
                    let placement = case["placement"].as_u64().unwrap_or(0) as usize;
                    (tirgen::place(placement, leaf), tirgen::PLACEMENTS[placement].to_string())
                } else {
                    let (dname, keys) = DIRECTIVES[case["directive"].as_u64().unwrap_or(0) as usize];
                    let key = keys[case["key"].as_u64().unwrap_or(0) as usize];
                    (directive_tx(dname, keys, key, leaf), format!("{dname}.{key}"))
                };
                drive(&tx, &ArgMap::new(), &all_stores[0].1, &all_pp[0].1, &mut o, &json!({"leaf": name, "at": at}), "ir-level");
                o.key(hash64(&(&at, &name)));
                // the leaf as an operand of every operation, beside an operand of another kind (operations that cannot
                // be carried out describe their operands in the error they return)
                if case["kind"] == "leaves" && at == "outputs[0].datum" {
                    use tir::BuiltInOp as B;
                    use tir::Expression as E;
                    let (_, l) = leaves().into_iter().find(|(n, _)| *n == name).expect("leaf");
                    let placement = case["placement"].as_u64().unwrap_or(0) as usize;
                    for (op, e) in [
                        ("concat(leaf, bool)", B::Concat(l.clone(), E::Bool(true))),
                        ("concat(bool, leaf)", B::Concat(E::Bool(true), l.clone())),
                        ("concat(leaf, bytes)", B::Concat(l.clone(), E::Bytes(vec![1]))),
                        ("add(leaf, 1)", B::Add(l.clone(), E::Number(1))),
                        ("sub(1, leaf)", B::Sub(E::Number(1), l.clone())),
                        ("negate(leaf)", B::Negate(l.clone())),
                        ("property(leaf, 0)", B::Property(l.clone(), E::Number(0))),
                        ("property(list, leaf)", B::Property(E::List(vec![E::Number(1)]), l.clone())),
                    ] {
                        let tx = tirgen::place(placement, tirb::builtin(e));
                        drive(&tx, &ArgMap::new(), &all_stores[0].1, &all_pp[0].1, &mut o, &json!({"leaf": name, "operation": op}), "ir-level");
                        o.key(hash64(&("op", op, &name)));
                    }
                }
            }
            return o;
        }
        let id = TreeId {
            outer: case["outer"].as_u64().map(|x| x as usize),
            inner: case["inner"].as_u64().map(|x| x as usize),
            probe: PROBES[case["probe"].as_u64().unwrap_or(0) as usize],
            placement: case["placement"].as_u64().unwrap_or(0) as usize,
        };
        let tx = tirgen::build_tree(&id);
        let cs = tirgen::contexts();
        let hole = match (id.inner, id.outer) {
            (Some(i), _) => cs[i].hole,
            (None, Some(out)) => cs[out].hole,
            _ => tirgen::placement_kind(id.placement),
        };
        let qual = "ir-level";
        let desc = tirgen::describe(&id);
        let params = find_params(&tx);
        let defaults: ArgMap = params.iter().map(|(k, ty)| (k.clone(), alphabet(ty, tier)[0].clone())).collect();
        if case["light"].as_bool().unwrap_or(false) {
            drive(&tx, &defaults, &all_stores[0].1, &all_pp[0].1, &mut o, &json!({"tree": desc, "args": "defaults"}), qual);
            o.key(hash64(&(&desc, "light")));
            return o;
        }
        for (sn, st) in &all_stores {
            for (pn, pp) in &all_pp {
                drive(&tx, &defaults, st, pp, &mut o, &json!({"tree": desc, "args": "defaults", "store": sn, "pparams": pn}), qual);
                o.key(hash64(&(&desc, sn, pn)));
            }
        }
        for (shape, variant) in output_shapes(&tx) {
            let vparams = find_params(&variant);
            let vdefaults: ArgMap = vparams.iter().map(|(k, ty)| (k.clone(), alphabet(ty, tier)[0].clone())).collect();
            for (vi, val) in [ArgValue::Int(5), ArgValue::Int(0), ArgValue::Int(1)].into_iter().enumerate() {
                let mut args = vdefaults.clone();
                if vparams.contains_key(tirgen::PROBE_PARAM) && kind_type(hole) == Type::Int {
                    args.insert(tirgen::PROBE_PARAM.into(), val);
                } else if vi > 0 {
                    break;
                }
                drive(&variant, &args, &all_stores[0].1, &all_pp[0].1, &mut o, &json!({"tree": desc, "outputs": shape, "value": vi}), qual);
                o.key(hash64(&(&desc, shape, vi)));
            }
        }
        if params.contains_key(tirgen::PROBE_PARAM) {
            for (vi, val) in alphabet(&kind_type(hole), tier).into_iter().enumerate().skip(1) {
                let mut args = defaults.clone();
                let shown = arg_name(&val);
                args.insert(tirgen::PROBE_PARAM.into(), val);
                drive(&tx, &args, &all_stores[0].1, &all_pp[0].1, &mut o, &json!({"tree": desc, "value": shown}), qual);
                o.key(hash64(&(&desc, vi)));
            }
        }
        o
    }
}
