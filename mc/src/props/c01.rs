//! C01 — the compiled transaction is exactly what the template denotes.
//!
//! Every execution of the typed program generator (`gen::prog`) with at most k deviations from the plain
//! transfer (program features, expression shapes, argument values, UTxO contents, fee, network, layout) is
//! printed, pushed through parse / analyze / lower / apply / reduce / compile, decoded with the independent
//! CBOR + Plutus-Data readers and compared field by field with the reference semantics `common::sem`.

use crate::common::pipeline::{lower_source, run_pipeline, RunCfg, PP};
use crate::common::plutus;
use crate::common::sem::{self, Denotation, Expected, MetaVal};
use crate::common::txdecode::{self, TxRec};
use crate::engine::dbx::{self, Chooser};
use crate::engine::{hash64, panics, Outcome, Prop, Sink, Tier, Violation};
use crate::gen::prog::{self, Scenario};
use serde_json::{json, Value};
use std::collections::{BTreeMap, BTreeSet};

pub struct C01;

fn k_for(tier: Tier) -> usize {
    if tier.is_thorough() {
        3
    } else {
        2
    }
}

/// the pipeline outcome for one scenario
pub enum Run {
    FrontRejected(String),
    PipelineErr(&'static str, String),
    Panic(panics::PanicInfo),
    Undecodable(String),
    Ok(TxRec, Vec<u8>),
}

pub fn execute(sc: &Scenario) -> (String, Run) {
    let src = prog::render(&sc.prog, sc.layout);
    let run = execute_with(sc, &src, None);
    (src, run)
}

/// `lowered`: the template if the caller already lowered this very source (the front end is the slow part)
pub fn execute_with(sc: &Scenario, src: &str, lowered: Option<&tx3_tir::model::v1beta0::Tx>) -> Run {
    let r = panics::catch(|| {
        let tx = match lowered {
            Some(t) => t.clone(),
            None => {
                let txs = match lower_source(src) {
                    Ok(t) => t,
                    Err(e) => return Run::FrontRejected(e.to_string()),
                };
                let Some(tx) = txs.get("t").cloned() else { return Run::FrontRejected("tx t missing".into()) };
                tx
            }
        };
        let cfg = RunCfg { pp: PP { network: sc.network, ..PP::default() }, fee: sc.fee, args: sem::args_for(sc), inputs: sem::utxos_for(sc) };
        match run_pipeline(tx, &cfg) {
            Err(e) => Run::PipelineErr(e.stage, e.message),
            Ok((c, _)) => match txdecode::decode_tx(&c.payload) {
                Ok(rec) => Run::Ok(rec, c.payload),
                Err(e) => Run::Undecodable(e),
            },
        }
    });
    match r {
        Ok(x) => x,
        Err(p) => Run::Panic(p),
    }
}

/// field-by-field comparison; returns (field, explanation) for every disagreement
pub fn compare(exp: &Expected, rec: &TxRec) -> Vec<(String, String)> {
    let mut d = vec![];
    let got_inputs: BTreeSet<(Vec<u8>, u64)> = rec.inputs.iter().cloned().collect();
    if got_inputs != exp.inputs || rec.inputs.len() != exp.inputs.len() {
        d.push(("inputs".to_string(), format!("expected {} inputs {:?}, got {:?}", exp.inputs.len(), short_refs(&exp.inputs), short_refs(&got_inputs))));
    }
    // redeemers: the data written on inputs and withdrawals, once per guarded item, and nothing that was not written
    {
        let mut got: Vec<(u64, String)> = rec
            .redeemers
            .iter()
            .filter(|r| r.tag == 0 || r.tag == 3)
            .map(|r| (r.tag, plutus::read_bytes(&r.data_raw).map(|d| d.to_string()).unwrap_or_else(|e| format!("undecodable: {e}"))))
            .collect();
        got.sort();
        if got != exp.redeemers {
            d.push(("redeemers".into(), format!("expected spend / reward redeemers {:?}, got {:?}", exp.redeemers, got)));
        }
        let mint_reds = rec.redeemers.iter().filter(|r| r.tag == 1).count();
        if !exp.mint_redeemers_written && mint_reds > 0 {
            d.push(("redeemers".into(), format!("no mint or burn block carries a redeemer, the witness set has {mint_reds} mint redeemer(s)")));
        }
    }
    if rec.outputs.len() != exp.outputs.len() {
        d.push(("outputs.count".into(), format!("expected {} outputs, got {}", exp.outputs.len(), rec.outputs.len())));
    }
    for (i, (e, g)) in exp.outputs.iter().zip(rec.outputs.iter()).enumerate() {
        if e.address != g.address {
            d.push(("output.address".into(), format!("output {i}: expected address {}, got {}", hex::encode(&e.address), hex::encode(&g.address))));
        }
        if e.lovelace != g.lovelace as i128 {
            d.push(("output.lovelace".into(), format!("output {i}: expected {} lovelace, got {}", e.lovelace, g.lovelace)));
        }
        let ga: BTreeMap<(Vec<u8>, Vec<u8>), i128> = g.assets.iter().map(|(k, v)| (k.clone(), v.to_i128().unwrap_or(i128::MIN))).collect();
        if ga != e.assets {
            d.push(("output.assets".into(), format!("output {i}: expected assets {:?}, got {:?}", show_assets(&e.assets), show_assets(&ga))));
        }
        // a reference script: #6.24(bytes([language, bytes(script)])) for a published one, none otherwise
        let want_ref = e.script_ref.as_ref().map(|(lang, script)| {
            let mut inner = vec![0x82, *lang, 0x40 + script.len() as u8];
            inner.extend(script);
            let mut v = vec![0xd8, 0x18, 0x40 + inner.len() as u8];
            v.extend(inner);
            v
        });
        if want_ref != g.script_ref {
            d.push(("output.script_ref".into(), format!("output {i}: expected reference script {:?}, got {:?}", want_ref.as_ref().map(hex::encode), g.script_ref.as_ref().map(hex::encode))));
        }
        match (&e.datum, &g.datum_raw) {
            (None, None) => {}
            (Some(ed), Some(raw)) => match plutus::read_bytes(raw) {
                Ok(gd) if gd == *ed => {}
                Ok(gd) => d.push(("output.datum".into(), format!("output {i}: expected datum {ed}, got {gd}"))),
                Err(err) => d.push(("output.datum".into(), format!("output {i}: datum is not Plutus Data: {err}"))),
            },
            (Some(ed), None) => d.push(("output.datum".into(), format!("output {i}: expected datum {ed}, got none"))),
            (None, Some(_)) => d.push(("output.datum".into(), format!("output {i}: unexpected datum"))),
        }
    }
    let gm: BTreeMap<(Vec<u8>, Vec<u8>), i128> = rec.mint.iter().map(|(k, v)| (k.clone(), v.to_i128().unwrap_or(i128::MIN))).collect();
    if gm != exp.mint {
        d.push(("mint".into(), format!("expected mint {:?}, got {:?}", show_assets(&exp.mint), show_assets(&gm))));
    }
    if rec.ttl.map(|x| x as i128) != exp.ttl {
        d.push(("ttl".into(), format!("expected ttl {:?}, got {:?}", exp.ttl, rec.ttl)));
    }
    if rec.validity_start.map(|x| x as i128) != exp.start {
        d.push(("validity-start".into(), format!("expected validity start {:?}, got {:?}", exp.start, rec.validity_start)));
    }
    let gs: BTreeSet<Vec<u8>> = rec.required_signers.iter().cloned().collect();
    if gs != exp.signers || rec.required_signers.len() != exp.signers.len() {
        d.push(("required-signers".into(), format!("expected {} signers, got {}", exp.signers.len(), rec.required_signers.len())));
    }
    let gw: BTreeMap<Vec<u8>, i128> = rec.withdrawals.iter().map(|(a, n)| (a.clone(), *n as i128)).collect();
    if gw != exp.withdrawals || rec.withdrawals.len() != exp.withdrawals.len() {
        let show = |m: &BTreeMap<Vec<u8>, i128>| m.iter().map(|(a, n)| format!("{}:{n}", hex::encode(a))).collect::<Vec<_>>();
        d.push(("withdrawals".into(), format!("expected withdrawals {:?}, got {:?}", show(&exp.withdrawals), show(&gw))));
    }
    if rec.donation.map(|x| x as i128) != exp.donation {
        d.push(("donation".into(), format!("expected donation {:?}, got {:?}", exp.donation, rec.donation)));
    }
    let gr: BTreeSet<(Vec<u8>, u64)> = rec.reference_inputs.iter().cloned().collect();
    if gr != exp.reference_inputs {
        d.push(("reference-inputs".into(), format!("expected {:?}, got {:?}", short_refs(&exp.reference_inputs), short_refs(&gr))));
    }
    let gc: BTreeSet<(Vec<u8>, u64)> = rec.collateral.iter().cloned().collect();
    if gc != exp.collateral {
        d.push(("collateral".into(), format!("expected {:?}, got {:?}", short_refs(&exp.collateral), short_refs(&gc))));
    }
    // metadata
    let mut gmeta: BTreeMap<u64, MetaVal> = BTreeMap::new();
    for (k, raw) in &rec.metadata {
        let v = match crate::common::cbor::decode(raw) {
            Ok(n) => {
                if let Some(i) = n.as_int() {
                    MetaVal::Int(i.to_i128().unwrap_or(i128::MIN))
                } else if let Some(t) = n.as_text() {
                    MetaVal::Text(t.to_string())
                } else if let Some(b) = n.as_bytes() {
                    MetaVal::Bytes(b.to_vec())
                } else {
                    MetaVal::Text("<other metadatum>".into())
                }
            }
            Err(_) => MetaVal::Text("<undecodable>".into()),
        };
        gmeta.insert(*k, v);
    }
    if gmeta != exp.metadata {
        d.push(("metadata".into(), format!("expected metadata {:?}, got {:?}", exp.metadata, gmeta)));
    }
    if rec.fee != exp.fee {
        d.push(("fee".into(), format!("expected fee {}, got {}", exp.fee, rec.fee)));
    }
    if rec.network_id != Some(exp.network as u64) {
        d.push(("network-id".into(), format!("expected network {}, got {:?}", exp.network, rec.network_id)));
    }
    d
}

fn short_refs(s: &BTreeSet<(Vec<u8>, u64)>) -> Vec<String> {
    s.iter().map(|(t, i)| format!("{}#{i}", hex::encode(&t[..2.min(t.len())]))).collect()
}

fn show_assets(a: &BTreeMap<(Vec<u8>, Vec<u8>), i128>) -> Vec<String> {
    a.iter().map(|((p, n), v)| format!("{}.{}:{v}", hex::encode(&p[..2.min(p.len())]), String::from_utf8_lossy(n))).collect()
}

/// verdict for one scenario: list of (mismatch kind, explanation); empty = agrees (or not judged)
pub fn verdict(sc: &Scenario) -> (String, &'static str, Vec<(String, String)>) {
    let den = sem::denote(sc);
    let (src, run) = execute(sc);
    let out = match (&den, run) {
        (Denotation::Undefined(_), _) => ("skipped-undefined", vec![]),
        (Denotation::MustFail(_), Run::Ok(..)) => ("must-fail-but-compiled(C02)", vec![]),
        (Denotation::MustFail(_), _) => ("must-fail-and-failed", vec![]),
        (Denotation::Tx(_), Run::FrontRejected(e)) => ("front-rejected", vec![("front-end-rejects-generated-program".to_string(), e)]),
        (Denotation::Tx(_), Run::PipelineErr(stage, e)) => ("pipeline-error", vec![(format!("pipeline-error:{stage}"), crate::engine::first_line(&e, 200))]),
        (Denotation::Tx(_), Run::Panic(p)) => ("pipeline-panic", vec![(format!("pipeline-{}", p.signature()), p.message.clone())]),
        (Denotation::Tx(_), Run::Undecodable(e)) => ("payload-undecodable", vec![("payload-undecodable".to_string(), e)]),
        (Denotation::Tx(exp), Run::Ok(rec, _)) => {
            let d = compare(exp, &rec);
            if d.is_empty() {
                ("agrees", vec![])
            } else {
                ("disagrees", d)
            }
        }
    };
    (src, out.0, out.1)
}

/// scenario obtained from a choice sequence (None when the sequence does not fit the tree)
fn scenario_of(choices: &[usize]) -> Option<Scenario> {
    let mut c = Chooser::new(choices.to_vec());
    let sc = prog::generate(&mut c);
    if c.diverged {
        None
    } else {
        Some(sc)
    }
}

/// example programs of the repository that the front end accepts and lowers (as it did at the snapshot this work
/// started from): whatever else changes, they stay templates of the language
pub const ACCEPTED_EXAMPLES: [&str; 25] = [
    "alias_type", "asteria", "buidler_fest_2026", "buidlr_fest", "burn", "cardano_witness", "disordered", "donation", "env_vars", "faucet",
    "input_datum", "lang_tour", "list_concat", "list_indexing", "local_vars", "map", "min_utxo", "order-book", "posix_time", "reference_script",
    "swap", "tip_slot", "transfer", "vesting", "withdrawal",
];

fn judge_example(name: &str, o: &mut Outcome) {
    o.evals = 1;
    let Ok(src) = std::fs::read_to_string(format!("/repo/examples/{name}.tx3")) else {
        o.class("example-file-missing");
        return;
    };
    match crate::engine::panics::catch(|| crate::common::pipeline::lower_source(&src)) {
        Ok(Ok(txs)) if !txs.is_empty() => {
            o.class("example-accepted-and-lowered");
            o.key(hash64(&format!("example:{name}")));
        }
        Ok(Ok(_)) => o.class("example-without-transactions"),
        Ok(Err(e)) => {
            o.class("example-rejected");
            let stage = match &e {
                crate::common::pipeline::FrontError::Parse(_) => "parse",
                crate::common::pipeline::FrontError::Analyze(_) => "analyze",
                crate::common::pipeline::FrontError::Lower(..) => "lower",
            };
            o.violate(Violation::new(
                format!("front-end-rejects-example|{stage}"),
                format!("examples/{name}.tx3 is no longer accepted: {}", crate::engine::first_line(&format!("{e:?}"), 200)),
            ));
        }
        Err(p) => {
            o.class("example-panics");
            o.violate(Violation::new(format!("front-end-rejects-example|{}", p.signature()), format!("examples/{name}.tx3: {}", p.message)));
        }
    }
}

/// `concat(x, nothing)` and `concat(nothing, x)` as an output datum: the datum is x, on either side
fn judge_concat_absent(o: &mut Outcome) {
    use crate::common::tirb;
    use crate::gen::tirgen;
    use tx3_tir::compile::Compiler as _;
    use tx3_tir::model::v1beta0 as tir;
    use tx3_tir::reduce::Apply as _;
    use crate::common::pipeline::compiler;
    use crate::common::plutus::PData;
    let datum_at = tirgen::PLACEMENTS.iter().position(|p| *p == "outputs[0].datum").expect("placement");
    let values: Vec<(&str, tir::Expression, PData)> = vec![
        ("bytes", tir::Expression::Bytes(vec![0x42, 0xab, 0xcd]), PData::Bytes(vec![0x42, 0xab, 0xcd])),
        ("string", tir::Expression::String("ab".into()), PData::Bytes(b"ab".to_vec())),
    ];
    for (name, x, want) in values {
        for (side, e) in [
            ("absent-on-the-left", tir::BuiltInOp::Concat(tir::Expression::None, x.clone())),
            ("absent-on-the-right", tir::BuiltInOp::Concat(x.clone(), tir::Expression::None)),
        ] {
            o.evals += 1;
            let tx = tirgen::place(datum_at, tirb::builtin(e));
            let compiled = panics::catch(|| {
                let t = tx.reduce().map_err(|e| e.to_string())?;
                let mut c = compiler(&PP::default());
                c.compile(&tx3_tir::encoding::AnyTir::V1Beta0(t)).map_err(|e| e.to_string())
            });
            let got = match compiled {
                Ok(Ok(c)) => txdecode::decode_tx(&c.payload).ok().and_then(|r| r.outputs.first().map(|o| o.datum_raw.clone())),
                _ => None,
            };
            match got {
                Some(Some(raw)) if plutus::read_bytes(&raw).map(|d| d == want).unwrap_or(false) => o.class("concat-absent:the-other-operand"),
                other => {
                    o.class("concat-absent:differs");
                    o.violate(Violation::new(
                        format!("output.datum|concat-{side}|{name}"),
                        format!("concat of {name} with an absent operand ({side}) denotes the {name}; the compiled output carries {:?}", other.map(|d| d.map(hex::encode))),
                    ));
                }
            }
            o.key(hash64(&(name, side)));
        }
    }
}

impl Prop for C01 {
    fn id(&self) -> &'static str {
        "C01"
    }
    fn rule(&self, tier: Tier) -> String {
        format!(
            "every execution of the typed program generator with <= {} deviations from the plain transfer `tx t(q){{input a{{from,min_amount}} output{{to \
             R, Ada(q)}} output{{to S, a - Ada(q) - fees}}}}`: about 30 static choice points (more open dynamically) over party spelling, 7 layouts, network, \
             fee, argument value, 4 UTxO contents (incl. tokens and a two-UTxO input*), input kind / threshold / address / redeemer, payment expression (8 \
             shapes: integer arithmetic with parentheses and double negation, env, locals, static and AnyAsset tokens), change expression (4 \
             associations), mint / burn (5), datums (18 kinds: records in and out of declaration order, variants, lists, maps, spread, input datum / field / \
             list item, concat), named / optional / extra outputs, validity (7, incl. tip_slot, time_to_slot, slot_to_time), signers, metadata, \
             references, collateral, unused definitions, block order. Oracle: decoded transaction (independent CBOR and Plutus-Data readers) = [[P]] \
             computed over the generator's own tree. Besides, the 25 example programs of the repository that the front end accepted at the \
             starting snapshot must still parse, analyse and lower. Non-trivial = [[P]] defined and the payload decoded and compared; distinct = distinct scenarios.",
            k_for(tier)
        )
    }
    fn assumptions(&self) -> Vec<String> {
        vec![
            "the reference semantics is mine (written from README / examples): records = constructor 0, fields by declaration order, spread by index, left-associative + and -, input in asset position = sum of its UTxOs, script address = enterprise script address, slots at 1 s relative to the cursor".into(),
            "inputs are applied directly (selection is C03's subject); stage order = args, fees, reduce, compiler ops, inputs, reduce (order independence is C07's)".into(),
            "programs needing more deviations than the bound are not covered".into(),
        ]
    }
    fn bound(&self, tier: Tier) -> String {
        format!("{} deviations", k_for(tier))
    }
    fn case_identity(&self, case: &Value) -> String {
        case["choices"].to_string()
    }
    fn enumerate(&self, tier: Tier, sink: &mut Sink) {
        for name in ACCEPTED_EXAMPLES {
            sink.case(|| json!({"kind": "example-accepted", "choices": [name], "example": name}));
        }
        // concatenation with an absent operand (an input read as data whose UTxO carries no datum): the other operand
        sink.case(|| json!({"kind": "concat-with-absent-operand", "choices": ["concat-absent"], "concat_absent": true}));
        let mut gen = |c: &mut Chooser| prog::generate(c);
        dbx::explore(k_for(tier), &mut gen, &mut |choices, devs, sc| {
            sink.case(|| json!({"kind": format!("program-{devs}-deviations"), "choices": choices, "labels": sc.labels}));
        });
    }
    fn run(&self, case: &Value) -> Outcome {
        let mut o = Outcome::default();
        if let Some(name) = case["example"].as_str() {
            judge_example(name, &mut o);
            return o;
        }
        if case["concat_absent"] == true {
            judge_concat_absent(&mut o);
            return o;
        }
        let choices: Vec<usize> = case["choices"].as_array().map(|a| a.iter().filter_map(|x| x.as_u64().map(|x| x as usize)).collect()).unwrap_or_default();
        let Some(sc) = scenario_of(&choices) else {
            panic!("harness: choice sequence {choices:?} does not fit the generator");
        };
        o.evals = 1;
        let (src, class, diffs) = verdict(&sc);
        o.class(class);
        if class == "agrees" || class == "disagrees" {
            o.key(hash64(&serde_json::to_string(&sc).unwrap_or_default()));
        }
        if diffs.is_empty() {
            return o;
        }
        // attribute each disagreement to the smallest set of deviations that still shows it
        let positions: Vec<usize> = (0..choices.len()).filter(|i| choices[*i] != 0).collect();
        for (kind, what) in diffs {
            let mut culprit: Option<String> = None;
            if positions.len() > 1 {
                for (k, pos) in positions.iter().enumerate() {
                    let mut single = vec![0usize; choices.len()];
                    single[*pos] = choices[*pos];
                    while single.last() == Some(&0) {
                        single.pop();
                    }
                    if let Some(sub) = scenario_of(&single) {
                        if sub.labels.len() == 1 && sc.labels.get(k) == sub.labels.first() {
                            let (_, _, sub_diffs) = verdict(&sub);
                            if sub_diffs.iter().any(|(k2, _)| *k2 == kind) {
                                culprit = Some(sub.labels[0].clone());
                                break;
                            }
                        }
                    }
                }
            }
            let labels = culprit.unwrap_or_else(|| sc.labels.join("+"));
            o.violate(
                Violation::new(format!("{kind}|{}", if labels.is_empty() { "default-program".to_string() } else { labels }), what)
                    .with_detail(json!({"source": src, "q": sc.q, "fee": sc.fee, "network": sc.network, "utxo": sc.utxo, "deviations": sc.labels})),
            );
        }
        o
    }
}
