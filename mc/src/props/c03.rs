//! C03 — input selection honours every stated constraint and finds a match if one exists.
//!
//! Seam: `tx3_resolver::inputs::resolve(AnyTir, &store)` with a hand-built TIR holding exactly one input
//! (or collateral) block. Stores: all multisets of UTxO contents up to n; queries: the full product of
//! address x ref x min_amount x single/many x input/collateral. The iteration order of every candidate set
//! handed to the selector is an enumerated environment choice (see `MemStore::order_plan`).
//! Oracle `select_spec`: written from the property text, shares no code with narrow.rs / vector.rs.

use crate::common::pipeline::base_address;
use crate::common::store::{factorial, MemStore};
use crate::common::tirb;
use crate::engine::{hash64, Outcome, Prop, Sink, Tier, Violation};
use serde_json::{json, Value};
use tx3_tir::encoding::AnyTir;
use tx3_tir::model::assets::{AssetClass, CanonicalAssets};
use tx3_tir::model::core::{Utxo, UtxoRef};
use tx3_tir::model::v1beta0 as tir;

pub struct C03;

pub const WINDOW: usize = 50;

pub fn pol1() -> Vec<u8> {
    vec![0x11; 28]
}
pub fn pol2() -> Vec<u8> {
    vec![0x22; 28]
}
pub fn addr(i: usize) -> Vec<u8> {
    base_address(if i == 0 { 0xA0 } else { 0xB0 }, 0)
}

/// amounts of (lovelace, T1, T2)
pub type Amt = [i128; 3];

#[derive(Debug, Clone, Copy, PartialEq, Eq, Hash)]
pub struct Content {
    pub addr: usize,
    pub amt: Amt,
}

#[derive(Debug, Clone)]
pub struct Alpha {
    pub name: &'static str,
    pub lov: i128,
    pub t1: i128,
    pub t2: i128,
    pub n: usize,
    /// query min_amount maxima
    pub qlov: i128,
    pub qt1: i128,
    pub qt2: i128,
    /// every amount (stored and requested) is multiplied by this: the same shapes with quantities beyond 32 / 63 / 64 bits
    pub scale: i128,
}

pub fn alphas(tier: Tier) -> Vec<Alpha> {
    match tier {
        Tier::Quick => vec![
            Alpha { name: "full-n2", lov: 3, t1: 2, t2: 1, n: 2, qlov: 4, qt1: 3, qt2: 2, scale: 1 },
            Alpha { name: "reduced-n3", lov: 2, t1: 2, t2: 0, n: 3, qlov: 3, qt1: 3, qt2: 0, scale: 1 },
            Alpha { name: "wide-2^62-n2", lov: 2, t1: 1, t2: 0, n: 2, qlov: 3, qt1: 2, qt2: 0, scale: 1 << 62 },
            Alpha { name: "wide-2^32+1-n2", lov: 2, t1: 1, t2: 0, n: 2, qlov: 3, qt1: 2, qt2: 0, scale: (1 << 32) + 1 },
        ],
        Tier::Thorough => vec![
            Alpha { name: "full-n3", lov: 3, t1: 2, t2: 1, n: 3, qlov: 4, qt1: 3, qt2: 2, scale: 1 },
            Alpha { name: "reduced-n4", lov: 2, t1: 2, t2: 0, n: 4, qlov: 3, qt1: 3, qt2: 0, scale: 1 },
            Alpha { name: "wide-2^62-n3", lov: 2, t1: 1, t2: 1, n: 3, qlov: 3, qt1: 2, qt2: 1, scale: 1 << 62 },
            Alpha { name: "wide-2^32+1-n3", lov: 2, t1: 1, t2: 1, n: 3, qlov: 3, qt1: 2, qt2: 1, scale: (1 << 32) + 1 },
            Alpha { name: "wide-2^64-n2", lov: 2, t1: 1, t2: 0, n: 2, qlov: 3, qt1: 2, qt2: 0, scale: 1 << 64 },
        ],
    }
}

fn alpha_by_name(name: &str) -> Option<Alpha> {
    alphas(Tier::Quick)
        .into_iter()
        .chain(alphas(Tier::Thorough))
        .find(|a| a.name == name)
}

pub fn contents(a: &Alpha) -> Vec<Content> {
    let mut out = vec![];
    for addr in 0..2 {
        for l in 0..=a.lov {
            for t1 in 0..=a.t1 {
                for t2 in 0..=a.t2 {
                    out.push(Content { addr, amt: [l * a.scale, t1 * a.scale, t2 * a.scale] });
                }
            }
        }
    }
    out
}

/// all multisets (non-decreasing index lists) of size exactly k over m contents
fn multisets(m: usize, k: usize, cur: &mut Vec<usize>, start: usize, f: &mut dyn FnMut(&[usize])) {
    if cur.len() == k {
        f(cur);
        return;
    }
    for i in start..m {
        cur.push(i);
        multisets(m, k, cur, i, f);
        cur.pop();
    }
}

pub fn assets_of(amt: &Amt) -> CanonicalAssets {
    let mut a = CanonicalAssets::empty();
    if amt[0] != 0 {
        a = a + CanonicalAssets::from_naked_amount(amt[0]);
    }
    if amt[1] != 0 {
        a = a + CanonicalAssets::from_defined_asset(&pol1(), b"T1", amt[1]);
    }
    if amt[2] != 0 {
        a = a + CanonicalAssets::from_defined_asset(&pol2(), b"T2", amt[2]);
    }
    a
}

pub fn amt_of(a: &CanonicalAssets) -> Amt {
    [
        a.asset_amount(&AssetClass::Naked).unwrap_or(0),
        a.asset_amount(&AssetClass::Defined(pol1(), b"T1".to_vec())).unwrap_or(0),
        a.asset_amount(&AssetClass::Defined(pol2(), b"T2".to_vec())).unwrap_or(0),
    ]
}

pub fn make_store(cs: &[Content]) -> MemStore {
    MemStore::new(
        cs.iter()
            .enumerate()
            .map(|(i, c)| tirb::utxo(ref_at(i), &addr(c.addr), assets_of(&c.amt)))
            .collect(),
    )
}

#[derive(Debug, Clone, PartialEq)]
pub struct Query {
    pub address: Option<usize>,
    /// positions in the store; usize::MAX = dangling reference
    pub refs: Vec<usize>,
    /// None = field absent; Some(None) per component = component not listed
    pub min: Option<[Option<i128>; 3]>,
    pub many: bool,
    pub collateral: bool,
}

pub fn dangling() -> UtxoRef {
    tirb::utxo_ref(0xEE, 9)
}

pub fn ref_at(i: usize) -> UtxoRef {
    if i == usize::MAX {
        dangling()
    } else {
        // neighbours are outputs of one transaction (same txid, indices i and i + 1): a UTxO is its txid AND its index
        // and the index is a full integer: the second output sits 65536 above the first, so the two agree in their low
        // 16 bits
        tirb::utxo_ref((i / 2) as u8 + 1, if i % 2 == 1 { (i as u32 - 1) + 65536 } else { i as u32 })
    }
}

impl Query {
    pub fn min_amt(&self) -> Amt {
        match &self.min {
            None => [0, 0, 0],
            Some(m) => [m[0].unwrap_or(0), m[1].unwrap_or(0), m[2].unwrap_or(0)],
        }
    }

    pub fn to_tir(&self) -> tir::InputQuery {
        let min_amount = match &self.min {
            None => tir::Expression::None,
            Some(m) => {
                let mut list = vec![];
                if let Some(l) = m[0] {
                    list.push(tirb::lovelace(l));
                }
                if let Some(t) = m[1] {
                    list.push(tirb::token(&pol1(), b"T1", t));
                }
                if let Some(t) = m[2] {
                    list.push(tirb::token(&pol2(), b"T2", t));
                }
                tir::Expression::Assets(list)
            }
        };
        tir::InputQuery {
            address: match self.address {
                None => tir::Expression::None,
                Some(a) => tir::Expression::Address(addr(a)),
            },
            min_amount,
            r#ref: if self.refs.is_empty() {
                tir::Expression::None
            } else {
                tir::Expression::UtxoRefs(self.refs.iter().map(|i| ref_at(*i)).collect())
            },
            many: self.many,
            collateral: self.collateral,
        }
    }

    pub fn describe(&self) -> String {
        format!(
            "{}{{from:{:?}, refs:{:?}, min:{:?}, many:{}}}",
            if self.collateral { "collateral" } else { "input" },
            self.address.map(|a| if a == 0 { "A" } else { "B" }),
            self.refs
                .iter()
                .map(|r| if *r == usize::MAX { "dangling".to_string() } else { format!("r{r}") })
                .collect::<Vec<_>>(),
            self.min,
            self.many
        )
    }
}

pub fn queries(a: &Alpha, n: usize, f: &mut dyn FnMut(&Query)) {
    let mut ref_opts: Vec<Vec<usize>> = vec![vec![]];
    for i in 0..n {
        ref_opts.push(vec![i]);
    }
    ref_opts.push(vec![usize::MAX]);
    // hand-built multi-ref queries (soundness only)
    if n >= 2 {
        ref_opts.push(vec![0, 1]);
        ref_opts.push(vec![n - 1, usize::MAX]);
    }
    let mut mins: Vec<Option<[Option<i128>; 3]>> = vec![None];
    let lopts: Vec<Option<i128>> = std::iter::once(None).chain((0..=a.qlov).map(|x| Some(x * a.scale))).collect();
    let t1opts: Vec<Option<i128>> = std::iter::once(None).chain((1..=a.qt1).map(|x| Some(x * a.scale))).collect();
    let t2opts: Vec<Option<i128>> = std::iter::once(None).chain((1..=a.qt2).map(|x| Some(x * a.scale))).collect();
    for l in &lopts {
        for t1 in &t1opts {
            for t2 in &t2opts {
                if l.is_none() && t1.is_none() && t2.is_none() {
                    continue;
                }
                mins.push(Some([*l, *t1, *t2]));
            }
        }
    }
    for address in [None, Some(0), Some(1)] {
        for refs in &ref_opts {
            for min in &mins {
                for many in [false, true] {
                    for collateral in [false, true] {
                        if collateral && many {
                            continue; // the language cannot express a multi-UTxO collateral block
                        }
                        f(&Query {
                            address,
                            refs: refs.clone(),
                            min: *min,
                            many,
                            collateral,
                        });
                    }
                }
            }
        }
    }
}

#[derive(Debug, Clone, PartialEq)]
pub enum Sel {
    Ok(Vec<Utxo>),
    Err(String),
}

/// Runs one block through the real resolver.
pub fn run_query(store: &MemStore, q: &Query) -> Sel {
    let mut tx = tirb::empty_tx();
    let name = if q.collateral { "collateral" } else { "x" };
    if q.collateral {
        tx.collateral.push(tir::Collateral {
            utxos: tirb::query_input(name, q.to_tir()),
        });
    } else {
        tx.inputs.push(tirb::input(name, q.to_tir()));
    }
    let res = pollster::block_on(tx3_resolver::inputs::resolve(AnyTir::V1Beta0(tx), store));
    match res {
        Ok(AnyTir::V1Beta0(tx)) => {
            let e = if q.collateral {
                tx.collateral[0].utxos.clone()
            } else {
                tx.inputs[0].utxos.clone()
            };
            match e {
                tir::Expression::EvalParam(p) => match *p {
                    tir::Param::Set(tir::Expression::UtxoSet(s)) => Sel::Ok(s.into_iter().collect()),
                    other => Sel::Err(format!("not-applied:{other:?}")),
                },
                other => Sel::Err(format!("not-applied:{other:?}")),
            }
        }
        Err(e) => Sel::Err(err_kind(&e)),
    }
}

pub fn err_kind(e: &tx3_resolver::Error) -> String {
    use tx3_resolver::Error as E;
    match e {
        E::InputNotResolved(..) => "InputNotResolved".into(),
        E::InputQueryTooBroad => "InputQueryTooBroad".into(),
        E::ExpectedData(..) => "ExpectedData".into(),
        E::StoreError(_) => "StoreError".into(),
        E::ReduceError(_) => "ReduceError".into(),
        E::CompileError(_) => "CompileError".into(),
        E::MissingTxArg { .. } => "MissingTxArg".into(),
        E::CantCompileNonConstantTir => "CantCompileNonConstantTir".into(),
        other => format!("other:{}", crate::engine::first_line(&other.to_string(), 40)),
    }
}

fn covers(have: &Amt, want: &Amt) -> bool {
    (0..3).all(|i| have[i] >= want[i])
}

/// The specification of selection for one block, from the property text.
/// `taken`: positions already bound to earlier non-collateral blocks.
pub fn judge(cs: &[Content], q: &Query, taken: &[usize], sel: &Sel, out: &mut Vec<(String, String)>) -> &'static str {
    let want = q.min_amt();
    let qual = match (q.address.is_some(), !q.refs.is_empty()) {
        (true, true) => "from+ref",
        (true, false) => "from-only",
        (false, true) => "ref-only",
        (false, false) => "no-from-no-ref",
    };
    let block = if q.collateral { "collateral" } else { "input" };
    match sel {
        Sel::Ok(set) => {
            let mut pos = vec![];
            for u in set {
                match (0..cs.len()).find(|i| ref_at(*i) == u.r#ref) {
                    None => out.push((
                        format!("select|unsound|unknown-utxo|{qual}"),
                        format!("selected {} which is not in the store", u.r#ref),
                    )),
                    Some(i) => {
                        if u.address != addr(cs[i].addr) || amt_of(&u.assets) != cs[i].amt {
                            out.push((
                                format!("select|unsound|utxo-altered|{qual}"),
                                format!("selected {} with contents differing from the store", u.r#ref),
                            ));
                        }
                        pos.push(i);
                    }
                }
            }
            pos.sort();
            let before = pos.len();
            pos.dedup();
            if pos.len() != before {
                out.push((format!("select|unsound|duplicate|{qual}"), "same UTxO twice in one selection".into()));
            }
            if pos.is_empty() {
                out.push((format!("select|unsound|empty-ok|{qual}"), "Ok with an empty selection".into()));
            }
            for i in &pos {
                if let Some(a) = q.address {
                    if cs[*i].addr != a {
                        out.push((
                            format!("select|unsound|address|{block}|{qual}"),
                            format!("{}: selected r{i} which does not sit at the `from` address", q.describe()),
                        ));
                    }
                }
                if !q.refs.is_empty() && !q.refs.contains(i) {
                    out.push((
                        format!("select|unsound|ref|{block}|{qual}"),
                        format!("{}: selected r{i} which is not among the `ref` references", q.describe()),
                    ));
                }
                if q.collateral && (cs[*i].amt[1] != 0 || cs[*i].amt[2] != 0) {
                    out.push((
                        format!("select|unsound|collateral-not-pure-lovelace|{qual}"),
                        format!("{}: collateral r{i} holds native assets", q.describe()),
                    ));
                }
                if !q.collateral && taken.contains(i) {
                    out.push((
                        format!("select|unsound|reused|{qual}"),
                        format!("{}: r{i} was already bound to an earlier block", q.describe()),
                    ));
                }
            }
            if !q.many {
                if pos.len() != 1 {
                    out.push((
                        format!("select|unsound|single-count|{block}|{qual}"),
                        format!("{}: single-UTxO block received {} UTxOs", q.describe(), pos.len()),
                    ));
                } else if !covers(&cs[pos[0]].amt, &want) {
                    out.push((
                        format!("select|unsound|single-cover|{block}|{qual}"),
                        format!("{}: r{} = {:?} does not cover min_amount {:?}", q.describe(), pos[0], cs[pos[0]].amt, want),
                    ));
                }
            } else {
                let mut sum = [0i128; 3];
                for i in &pos {
                    for k in 0..3 {
                        sum[k] += cs[*i].amt[k];
                    }
                }
                if !covers(&sum, &want) {
                    out.push((
                        format!("select|unsound|many-cover|{block}|{qual}"),
                        format!("{}: selection sums to {:?}, below min_amount {:?}", q.describe(), sum, want),
                    ));
                }
            }
            "selected"
        }
        Sel::Err(kind) => {
            // completeness: candidates per the property text
            let requested_tokens: Vec<usize> = (1..3).filter(|k| want[*k] > 0).collect();
            if q.address.is_none() && q.refs.is_empty() && requested_tokens.is_empty() {
                return "too-broad-by-construction";
            }
            if q.refs.len() >= 2 {
                // hand-built multi-ref queries are not reachable from the language: soundness only
                return "multi-ref-no-completeness-claim";
            }
            let cands: Vec<usize> = (0..cs.len())
                .filter(|i| q.address.map(|a| cs[*i].addr == a).unwrap_or(true))
                .filter(|i| q.refs.is_empty() || q.refs.contains(i))
                .filter(|i| {
                    q.address.is_some() || !q.refs.is_empty() || requested_tokens.iter().all(|k| cs[*i].amt[*k] > 0)
                })
                .filter(|i| q.collateral || !taken.contains(i))
                .filter(|i| !q.collateral || (cs[*i].amt[1] == 0 && cs[*i].amt[2] == 0))
                .collect();
            if cands.len() > WINDOW {
                return "beyond-window";
            }
            let exists = if !q.many {
                cands.iter().any(|i| covers(&cs[*i].amt, &want))
            } else {
                // some non-empty subset covers <=> the whole candidate set covers (amounts are >= 0)
                !cands.is_empty() && {
                    let mut sum = [0i128; 3];
                    for i in &cands {
                        for k in 0..3 {
                            sum[k] += cs[*i].amt[k];
                        }
                    }
                    covers(&sum, &want)
                }
            };
            if exists {
                out.push((
                    format!("select|incomplete|{}|{block}|{qual}|{kind}", if q.many { "many" } else { "single" }),
                    format!(
                        "{}: {} although candidates {:?} can cover min_amount {:?}",
                        q.describe(),
                        kind,
                        cands,
                        want
                    ),
                ));
                "wrongly-unresolved"
            } else {
                "rightly-unresolved"
            }
        }
    }
}

fn has_duplicates(cs: &[Content]) -> bool {
    (0..cs.len()).any(|i| (i + 1..cs.len()).any(|j| cs[i].amt == cs[j].amt))
}

fn run_store(alpha: &Alpha, idxs: &[usize], all_orders: bool) -> Outcome {
    let all = contents(alpha);
    let cs: Vec<Content> = idxs.iter().map(|i| all[*i]).collect();
    let mut o = Outcome::default();
    let orders_wanted = all_orders || has_duplicates(&cs);
    let mut qn = 0u32;
    queries(alpha, cs.len(), &mut |q| {
        qn += 1;
        let store = make_store(&cs);
        let sel = run_query(&store, q);
        let mut runs: Vec<(Sel, Vec<usize>)> = vec![];
        let fetched = store.fetch_orders.lock().unwrap().first().cloned().unwrap_or_default();
        runs.push((sel, fetched.clone()));
        if orders_wanted && fetched.len() >= 2 && fetched.len() <= 4 {
            // enumerate every iteration order of the candidate set handed to the selector
            for rank in 0..factorial(fetched.len()) {
                let store = make_store(&cs);
                *store.order_plan.lock().unwrap() = vec![rank];
                let sel = run_query(&store, q);
                let f = store.fetch_orders.lock().unwrap().first().cloned().unwrap_or_default();
                runs.push((sel, f));
            }
            o.count("candidate_orders_enumerated", factorial(fetched.len()) as u64);
        }
        for (sel, order) in runs {
            o.evals += 1;
            let mut vs = vec![];
            let class = judge(&cs, q, &[], &sel, &mut vs);
            o.class(class);
            vs.sort();
            vs.dedup();
            for (sig, what) in vs {
                o.violate(Violation::new(sig, what).with_detail(json!({
                    "store": cs.iter().enumerate().map(|(i, c)| json!({"ref": format!("r{i}"), "addr": if c.addr == 0 {"A"} else {"B"}, "lovelace": c.amt[0], "T1": c.amt[1], "T2": c.amt[2]})).collect::<Vec<_>>(),
                    "query": q.describe(),
                    "candidate_order": order,
                    "result": format!("{sel:?}").chars().take(400).collect::<String>(),
                })));
            }
        }
        o.key(hash64(&(alpha.name, idxs, qn)));
    });
    o
}

fn run_window(total: usize, with_token: bool, many: bool, shape: &str) -> Outcome {
    // `total` UTxOs at A. last-covers / first-covers: exactly one (the last / first in ref order) can cover the request;
    // all-needed: every one holds 1 lovelace (one of them also the token) and the request is for all of it, so a
    // `many` selection has to be offered the whole window
    if shape == "foreign-holders" {
        return run_foreign_holders(total, many);
    }
    let t = if with_token { 1 } else { 0 };
    let (special, plain, want) = if shape == "all-needed" { ([1, t, 0], [1, 0, 0], total as i128) } else { ([5, t, 0], [1, 0, 0], 5) };
    let at = if shape == "first-covers" { 0 } else { total - 1 };
    let cs: Vec<Content> = (0..total).map(|i| Content { addr: 0, amt: if i == at { special } else { plain } }).collect();
    let mut o = Outcome::default();
    for refs in [vec![], vec![at]] {
        let q = Query {
            address: Some(0),
            refs,
            min: Some([Some(want), if with_token { Some(1) } else { None }, None]),
            many,
            collateral: false,
        };
        for rep in 0..4 {
            // stores of 50 UTxOs cannot have their order enumerated; repeated with fresh hasher keys
            let utxos = cs
                .iter()
                .enumerate()
                .map(|(i, c)| tirb::utxo(ref_at(i), &addr(c.addr), assets_of(&c.amt)))
                .collect();
            let store = MemStore::new(utxos);
            let sel = run_query(&store, &q);
            o.evals += 1;
            let mut vs = vec![];
            let class = judge(&cs, &q, &[], &sel, &mut vs);
            o.class(format!("window-{class}"));
            for (sig, what) in vs {
                o.violate(Violation::new(format!("{sig}|window"), what));
            }
            o.key(hash64(&("window", total, with_token, many, shape, q.refs.len(), rep)));
        }
    }
    o
}

/// `total - 2` holders of the token at the other address, all sorting before the two UTxOs at A (one with the token
/// and a little lovelace, one with the lovelace the request needs): the candidates of `from A` are those two, however
/// many holders there are elsewhere
fn run_foreign_holders(total: usize, many: bool) -> Outcome {
    let mut cs: Vec<Content> = (0..total - 2).map(|_| Content { addr: 1, amt: [3, 1, 0] }).collect();
    cs.push(Content { addr: 0, amt: [2, 1, 0] });
    cs.push(Content { addr: 0, amt: [100, 0, 0] });
    let mut o = Outcome::default();
    for want in [[Some(50), Some(1), None], [Some(2), Some(1), None], [Some(100), None, None]] {
        let q = Query { address: Some(0), refs: vec![], min: Some(want), many, collateral: false };
        for rep in 0..4 {
            let utxos = cs.iter().enumerate().map(|(i, c)| tirb::utxo(ref_at(i), &addr(c.addr), assets_of(&c.amt))).collect();
            let store = MemStore::new(utxos);
            let sel = run_query(&store, &q);
            o.evals += 1;
            let mut vs = vec![];
            let class = judge(&cs, &q, &[], &sel, &mut vs);
            o.class(format!("window-{class}"));
            for (sig, what) in vs {
                o.violate(Violation::new(format!("{sig}|window-foreign-holders"), what));
            }
            o.key(hash64(&("foreign", total, many, want, rep)));
        }
    }
    o
}

impl Prop for C03 {
    fn id(&self) -> &'static str {
        "C03"
    }

    fn rule(&self, tier: Tier) -> String {
        format!(
            "complete product: every multiset store of <= n UTxO contents (address in {{A,B}} x lovelace x T1 x T2) x every query \
             (from in {{none,A,B}} x ref in {{none, each stored ref, dangling, 2 multi-ref sets}} x min_amount over lovelace/T1/T2 incl. absent and 0 \
             x single/many x input/collateral) through tx3_resolver::inputs::resolve; alphabets: {:?}; every iteration order of the candidate set \
             is enumerated for stores with identical contents (thorough: for every store); window stores of 49/50/51 UTxOs (the one covering UTxO first or last in ref order, or all of them needed; 0..120 holders of the requested token at another address sorting before the two candidates). Non-trivial = the resolver \
             returned and the specification predicate was evaluated; distinct = distinct (alphabet, store multiset, query).",
            alphas(tier).iter().map(|a| format!("{}: lov<={} t1<={} t2<={} n<={} x{}", a.name, a.lov, a.t1, a.t2, a.n, a.scale)).collect::<Vec<_>>()
        )
    }

    fn assumptions(&self) -> Vec<String> {
        vec![
            "amounts and store sizes outside the alphabets are not covered (wide amounts only as multiples of 2^32+1, 2^62, 2^64); all amounts are non-negative".into(),
            "queries with neither from, ref nor a positive token are expected to be refused (no completeness claim)".into(),
            "completeness is asserted only when the specification's candidate set has at most 50 members".into(),
            "the HashSet<UtxoRef> built inside SearchSpace::take is not observable; only the fetched candidate set's order is enumerated".into(),
        ]
    }

    fn bound(&self, tier: Tier) -> String {
        alphas(tier).iter().map(|a| a.name).collect::<Vec<_>>().join(" + ")
    }

    fn enumerate(&self, tier: Tier, sink: &mut Sink) {
        for a in alphas(tier) {
            let m = contents(&a).len();
            for k in 0..=a.n {
                let mut cur = vec![];
                multisets(m, k, &mut cur, 0, &mut |idxs| {
                    sink.case(|| json!({"kind": "store", "alpha": a.name, "contents": idxs, "all_orders": tier.is_thorough() && k <= 3}));
                });
            }
        }
        for holders in [0usize, 1, 47, 48, 49, 50, 60, 120] {
            for many in [false, true] {
                sink.case(|| json!({"kind": "window", "total": holders + 2, "with_token": true, "many": many, "shape": "foreign-holders"}));
            }
        }
        for total in [49usize, 50, 51] {
            for with_token in [false, true] {
                for many in [false, true] {
                    for shape in ["last-covers", "first-covers", "all-needed"] {
                        sink.case(|| json!({"kind": "window", "total": total, "with_token": with_token, "many": many, "shape": shape}));
                    }
                }
            }
        }
    }

    fn run(&self, case: &Value) -> Outcome {
        match case["kind"].as_str() {
            Some("store") => {
                let Some(alpha) = alpha_by_name(case["alpha"].as_str().unwrap_or("")) else {
                    return Outcome::default();
                };
                let idxs: Vec<usize> = case["contents"]
                    .as_array()
                    .map(|a| a.iter().filter_map(|x| x.as_u64().map(|x| x as usize)).collect())
                    .unwrap_or_default();
                run_store(&alpha, &idxs, case["all_orders"].as_bool().unwrap_or(false))
            }
            Some("window") => run_window(
                case["total"].as_u64().unwrap_or(50) as usize,
                case["with_token"].as_bool().unwrap_or(false),
                case["many"].as_bool().unwrap_or(false),
                case["shape"].as_str().unwrap_or("last-covers"),
            ),
            _ => Outcome::default(),
        }
    }
}
