//! C07 — staged application is order-independent and reduction is idempotent.
//!
//! Explicit-state search over real TIR values: a state is (template value, set of applied stages, whether
//! the last action was Reduce); actions are ApplyArgs, ApplyInputs, ApplyFees, ApplyCompilerOps (enabled
//! iff no operand of a compiler op still contains an unresolved parameter - decided by a generic walk of
//! the serialised value, not by `is_constant`) and Reduce. Every transition calls the implementation. The
//! graph contains all stage orders (inputs at once or in two separate calls) x all reduce placements. All terminal states must coincide.

use super::c06::{arg_for, sample_utxo};
use super::c13;
use crate::common::canon::{canon_tx_sums as canon_tir, unresolved_tx as unresolved};
use crate::common::shape::tx as to_json;
use crate::common::pipeline::{compiler, lower_source, PP};
use crate::engine::{hash64, panics, Outcome, Prop, Sink, Tier, Violation};
use crate::engine::dbx::{self, Chooser};
use crate::gen::prog;
use crate::gen::tirgen::{self, Probe, TreeId};
use serde_json::{json, Value};
use std::collections::{BTreeMap, HashMap, VecDeque};
use tx3_tir::model::core::Utxo;
use tx3_tir::model::v1beta0 as tir;
use tx3_tir::reduce::{find_params, find_queries, Apply as _, ArgMap};
use tx3_tir::Node as _;

pub struct C07;

#[derive(Debug, Clone, Copy, PartialEq, Eq, Hash, PartialOrd, Ord)]
enum Act {
    Args,
    /// every reported query at once
    Inputs,
    /// the first / second half of the reported queries (by name) in a call of its own: inputs may be supplied one
    /// at a time, and one query may mention another input
    InputsA,
    InputsB,
    Fees,
    CompilerOps,
    /// the compiler-op walk run although some built-in's operand is not there yet: it may refuse, or leave that
    /// built-in for later - what it may not do is evaluate it to something (the stage stays to be run)
    CompilerOpsEarly,
    Reduce,
}

const STAGES: [Act; 6] = [Act::Args, Act::Inputs, Act::InputsA, Act::InputsB, Act::Fees, Act::CompilerOps];
const ALL_APPLIED: u8 = 1 | 2 | 4 | 8 | 16;

#[derive(Clone)]
struct St {
    tx: Result<tir::Tx, String>,
    applied: u8,
    last_reduce: bool,
    path: Vec<Act>,
}

fn bit(a: Act) -> u8 {
    match a {
        Act::Args => 1,
        Act::Inputs => 2 | 16,
        Act::InputsA => 2,
        Act::InputsB => 16,
        Act::Fees => 4,
        Act::CompilerOps => 8,
        Act::CompilerOpsEarly => 0,
        Act::Reduce => 0,
    }
}

/// does some compiler op still have an unresolved parameter / query / fee below it?
fn compiler_operands_available(v: &Value) -> bool {
    fn any_expect(v: &Value) -> bool {
        match v {
            Value::Object(o) => o.iter().any(|(k, x)| k == "ExpectValue" || k == "ExpectInput" || any_expect(x)),
            Value::Array(a) => a.iter().any(any_expect),
            Value::String(s) => s == "ExpectFees",
            _ => false,
        }
    }
    match v {
        Value::Object(o) => o.iter().all(|(k, x)| if k == "EvalCompiler" { !any_expect(x) } else { compiler_operands_available(x) }),
        Value::Array(a) => a.iter().all(compiler_operands_available),
        _ => true,
    }
}

fn has_compiler_ops(v: &Value) -> bool {
    match v {
        Value::Object(o) => o.iter().any(|(k, x)| k == "EvalCompiler" || has_compiler_ops(x)),
        Value::Array(a) => a.iter().any(has_compiler_ops),
        Value::String(s) => s == "ComputeTipSlot",
        _ => false,
    }
}

fn err_class(e: &str) -> String {
    crate::engine::panics::normalize_message(&crate::engine::first_line(e, 60))
}

struct Env {
    args: ArgMap,
    inputs: BTreeMap<String, std::collections::HashSet<Utxo>>,
    inputs_a: BTreeMap<String, std::collections::HashSet<Utxo>>,
    inputs_b: BTreeMap<String, std::collections::HashSet<Utxo>>,
    fee: u64,
}

fn step(tx: tir::Tx, a: Act, env: &Env) -> Result<tir::Tx, String> {
    let r = panics::catch(|| match a {
        Act::Args => tx.apply_args(&env.args).map_err(|e| e.to_string()),
        Act::Inputs => tx.apply_inputs(&env.inputs).map_err(|e| e.to_string()),
        Act::InputsA => tx.apply_inputs(&env.inputs_a).map_err(|e| e.to_string()),
        Act::InputsB => tx.apply_inputs(&env.inputs_b).map_err(|e| e.to_string()),
        Act::Fees => tx.apply_fees(env.fee).map_err(|e| e.to_string()),
        Act::CompilerOps | Act::CompilerOpsEarly => {
            let mut c = compiler(&PP::default());
            tx.apply(&mut c).map_err(|e| e.to_string())
        }
        Act::Reduce => tx.reduce().map_err(|e| e.to_string()),
    });
    match r {
        Ok(x) => x,
        Err(p) => Err(format!("PANIC {}", p.signature())),
    }
}

fn run_template(tx: &tir::Tx, label: &str, o: &mut Outcome, detail: &Value) {
    let mut params = find_params(tx);
    // the stage is given every value the template asks for, whether or not `find_params` reports it (that is C06's
    // question): read off the serialised tree
    for (name, ty) in crate::common::canon::expected_values(tx) {
        let ty = match ty.as_str() {
            "Int" => tx3_tir::model::core::Type::Int,
            "Bool" => tx3_tir::model::core::Type::Bool,
            "Bytes" => tx3_tir::model::core::Type::Bytes,
            "Address" => tx3_tir::model::core::Type::Address,
            "UtxoRef" => tx3_tir::model::core::Type::UtxoRef,
            _ => continue,
        };
        params.entry(name).or_insert(ty);
    }
    let all_inputs: BTreeMap<String, std::collections::HashSet<Utxo>> = find_queries(tx)
        .keys()
        .enumerate()
        .map(|(i, k)| (k.clone(), [sample_utxo(0x30 + i as u8)].into_iter().collect()))
        .collect();
    // the split puts the later names first: a query that mentions another input is then served before it
    let half = all_inputs.len() / 2;
    let env = Env {
        args: params.iter().map(|(k, ty)| (k.clone(), arg_for(ty))).collect(),
        inputs_a: all_inputs.iter().skip(half).map(|(k, v)| (k.clone(), v.clone())).collect(),
        inputs_b: all_inputs.iter().take(half).map(|(k, v)| (k.clone(), v.clone())).collect(),
        inputs: all_inputs,
        fee: 180_000,
    };
    // with fewer than two queries there is nothing to split: the second half counts as applied
    let init = St { tx: Ok(tx.clone()), applied: if env.inputs.len() < 2 { 16 } else { 0 }, last_reduce: false, path: vec![] };
    let key_of = |s: &St| -> u64 {
        let body = match &s.tx {
            Ok(t) => canon_tir(t).to_string(),
            Err(e) => format!("ERR:{}", err_class(e)),
        };
        hash64(&(body, s.applied, s.last_reduce))
    };
    let mut seen: HashMap<u64, ()> = HashMap::new();
    let mut frontier = VecDeque::new();
    seen.insert(key_of(&init), ());
    frontier.push_back(init);
    let mut states = 0u64;
    let mut transitions = 0u64;
    let mut max_depth = 0u64;
    // terminal = all four stages applied and a final reduce
    let mut terminals: Vec<(String, Vec<Act>, bool)> = vec![];
    while let Some(s) = frontier.pop_front() {
        states += 1;
        max_depth = max_depth.max(s.path.len() as u64);
        let Ok(cur) = &s.tx else {
            // an error state is terminal for the schedules that reach it
            terminals.push((format!("ERR:{}", err_class(s.tx.as_ref().err().unwrap())), s.path.clone(), false));
            continue;
        };
        // reduce idempotence, in every state
        transitions += 2;
        o.evals += 2;
        if let Ok(r1) = step(cur.clone(), Act::Reduce, &env) {
            match step(r1.clone(), Act::Reduce, &env) {
                Ok(r2) => {
                    if canon_tir(&r2) != canon_tir(&r1) {
                        o.violate(
                            Violation::new(format!("reduce-not-idempotent|{label}"), format!("reduce(reduce(t)) differs from reduce(t) after {:?}", s.path))
                                .with_detail(detail.clone()),
                        );
                    }
                }
                Err(e) => o.violate(
                    Violation::new(
                        format!("reduce-not-idempotent|second-reduce-fails|{label}"),
                        format!("reducing an already reduced template failed after {:?}: {}", s.path, crate::engine::first_line(&e, 120)),
                    )
                    .with_detail(detail.clone()),
                ),
            }
        }
        if s.applied == ALL_APPLIED && s.last_reduce {
            // "fully reduced": every stage ran, so nothing may be left waiting for one - in particular no compiler
            // built-in in a position the compiler-op walk does not visit (all schedules would then agree, wrongly)
            let left = crate::common::canon::unresolved_tx(cur);
            if !left.is_empty() || left.compiler_ops > 0 {
                o.violate(
                    Violation::new(
                        format!("terminal-not-fully-reduced|{}|{label}", if left.compiler_ops > 0 { "compiler-op-left" } else { "parameter-left" }),
                        format!("after {:?} the template still holds {left:?}", s.path),
                    )
                    .with_detail(detail.clone()),
                );
            }
            terminals.push((canon_tir(cur).to_string(), s.path.clone(), true));
            continue;
        }
        let json_now = to_json(cur);
        let mut acts: Vec<Act> = vec![];
        for a in STAGES {
            if s.applied & bit(a) != 0 {
                continue;
            }
            if a == Act::CompilerOps && !compiler_operands_available(&json_now) {
                // once per state at most, and not straight after itself
                if s.path.last() != Some(&Act::CompilerOpsEarly) {
                    acts.push(Act::CompilerOpsEarly);
                }
                continue;
            }
            acts.push(a);
        }
        if !s.last_reduce {
            acts.push(Act::Reduce);
        }
        for a in acts {
            transitions += 1;
            o.evals += 1;
            let next_tx = step(cur.clone(), a, &env);
            if a == Act::CompilerOpsEarly && next_tx.is_err() {
                // refused: outside the orders the property speaks about
                continue;
            }
            let mut path = s.path.clone();
            path.push(a);
            let n = St { tx: next_tx, applied: s.applied | bit(a), last_reduce: a == Act::Reduce, path };
            let k = key_of(&n);
            if seen.insert(k, ()).is_none() {
                frontier.push_back(n);
            }
        }
    }
    o.count("states", states);
    o.count("transitions", transitions);
    o.max("max_depth", max_depth);
    // all terminals coincide
    let oks: Vec<&(String, Vec<Act>, bool)> = terminals.iter().filter(|t| t.2).collect();
    let errs: Vec<&(String, Vec<Act>, bool)> = terminals.iter().filter(|t| !t.2).collect();
    if oks.is_empty() && errs.is_empty() {
        o.class("no-terminal-reached");
        return;
    }
    let with_ops = has_compiler_ops(&to_json(tx));
    let qual = if with_ops { "with-compiler-ops" } else { "no-compiler-ops" };
    if let Some(first) = oks.first() {
        o.class("terminal-reached");
        for t in oks.iter().skip(1) {
            if t.0 != first.0 {
                o.violate(
                    Violation::new(
                        format!("order-dependent|different-final-templates|{qual}|{label}"),
                        format!("schedule {:?} and schedule {:?} end in different fully reduced templates", first.1, t.1),
                    )
                    .with_detail(detail.clone()),
                );
                break;
            }
        }
        if let Some(e) = errs.first() {
            // which stage pair is at fault: the last two actions of the failing schedule
            let tail: Vec<String> = e.1.iter().rev().take(2).rev().map(|a| format!("{a:?}")).collect();
            o.violate(
                Violation::new(
                    format!("order-dependent|some-schedules-fail|{}|{qual}|{label}", tail.join(">")),
                    format!("schedule {:?} succeeds but schedule {:?} fails with {}", first.1, e.1, e.0),
                )
                .with_detail(detail.clone()),
            );
        }
    } else {
        o.class(format!("every-schedule-fails:{label}"));
        // all failing: they should at least fail alike? not required by the property
    }
    let _ = unresolved(tx);
}

fn builtin_bases() -> Vec<(String, String)> {
    // every compiler built-in with a literal, a parameter, an env var and a local as operand; inputs as assets
    // and as datum; fees in outputs and in queries
    let mut v = vec![];
    for (name, operand) in [("literal", "1000"), ("param", "p"), ("env", "e"), ("local", "l")] {
        v.push((
            format!("time-builtins-{name}"),
            format!(
                "env {{\n    e: Int,\n}}\nparty A;\ntype D {{\n    t: Int,\n    s: Int,\n}}\ntx t(p: Int) {{\n    locals {{\n        l: p + 1,\n    }}\n    input src {{\n        from: A,\n        min_amount: fees,\n    }}\n    output {{\n        to: A,\n        amount: src - fees,\n        datum: D {{\n            t: slot_to_time({operand}),\n            s: time_to_slot({operand}) + tip_slot(),\n        }},\n    }}\n    validity {{\n        until_slot: time_to_slot({operand}),\n        since_slot: tip_slot(),\n    }}\n}}\n"
            ),
        ));
    }
    // one input's query mentions another input (and the fee): the inputs can be supplied in either order
    v.push((
        "query-mentions-another-input".into(),
        "party A;\nparty B;\ntx t(q: Int) {\n    input anchor {\n        from: A,\n        min_amount: Ada(q),\n    }\n    input backing {\n        from: B,\n        min_amount: anchor + fees,\n    }\n    input zlast {\n        from: B,\n        min_amount: backing + anchor,\n    }\n    output {\n        to: A,\n        amount: anchor + backing + zlast - fees,\n    }\n}\n".into(),
    ));
    v.push((
        "script-address-and-min-utxo".into(),
        "party A;\npolicy P = 0xABCDEF1234ABCDEF1234ABCDEF1234ABCDEF1234ABCDEF1234ABCDEF1234;\ntype D {\n    n: Int,\n}\ntx t(q: Int) {\n    input src {\n        from: P,\n        datum_is: D,\n        min_amount: fees + min_utxo(locked),\n        redeemer: D { n: q, },\n    }\n    output locked {\n        to: P,\n        amount: min_utxo(locked) + Ada(q),\n        datum: D { n: src.n + q, },\n    }\n    output {\n        to: A,\n        amount: src - fees - min_utxo(locked) - Ada(q),\n    }\n}\n".into(),
    ));
    v
}

impl Prop for C07 {
    fn id(&self) -> &'static str {
        "C07"
    }
    fn level(&self) -> &'static str {
        "model_checking"
    }
    fn rule(&self, _tier: Tier) -> String {
        "explicit-state search per template: states = (canonical TIR, applied stage set, last action was Reduce); transitions = the real apply_args / \
         apply_inputs / apply_fees / Node::apply(compiler) / reduce; ApplyCompilerOps is enabled iff a generic walk finds no ExpectValue / ExpectInput / \
         ExpectFees below any EvalCompiler node (run earlier it may refuse or leave the built-in in place, and the stage stays to be run: a schedule in which it answered goes on and has to end like the others); the graph holds all 24 stage orders x all reduce placements (depth <= 9). Checked: every terminal \
         state (all four stages + final reduce) holds no parameter, query, fee or compiler built-in any more and is the same canonical template and no schedule fails if one succeeds; reduce(reduce(s)) = reduce(s) in \
         every state. Templates: every tx of the corpus, 5 bases giving each compiler built-in a literal / parameter / env / local operand, and every \
         tirgen tree of depth <= 1 around a parameter / fees / query / tip_slot probe."
            .into()
    }
    fn assumptions(&self) -> Vec<String> {
        vec![
            "states are merged on the canonical serialisation (maps and UTxO sets sorted); single-UTxO inputs only, so set iteration order cannot matter".into(),
            "compiler ops run on a fresh compiler (min_utxo sized from the default), as in the first round of a resolution".into(),
        ]
    }
    fn bound(&self, _tier: Tier) -> String {
        "complete stage-order graph per template (depth 9)".into()
    }
    fn enumerate(&self, tier: Tier, sink: &mut Sink) {
        for (name, src) in builtin_bases() {
            sink.case(|| json!({"kind": "program", "file": name, "src": src}));
        }
        for (name, src) in c13::corpus(tier) {
            sink.case(|| json!({"kind": "program", "file": name, "src": src}));
        }
        // every distinct program text of the typed generator with <= 1 (thorough: 2) deviations
        let mut seen = std::collections::HashSet::new();
        let mut gen = |c: &mut Chooser| prog::generate(c);
        dbx::explore(if tier.is_thorough() { 2 } else { 1 }, &mut gen, &mut |_choices, _devs, sc| {
            let src = prog::render(&sc.prog, 0);
            if seen.insert(src.clone()) {
                sink.case(|| json!({"kind": "program", "file": format!("generator:{}", sc.labels.join("+")), "src": src}));
            }
        });
        let n = tirgen::contexts().len();
        for p in 0..5usize {
            for placement in 0..tirgen::PLACEMENTS.len() {
                sink.case(|| json!({"kind": "ir", "probe": p, "placement": placement}));
                for i in 0..n {
                    sink.case(|| json!({"kind": "ir", "probe": p, "placement": placement, "inner": i}));
                }
            }
        }
    }
    fn run(&self, case: &Value) -> Outcome {
        let mut o = Outcome::default();
        if case["kind"] == "program" {
            let src = case["src"].as_str().unwrap_or("");
            let Ok(Ok(txs)) = panics::catch(|| lower_source(src)) else {
                o.class("corpus-program-not-lowerable");
                return o;
            };
            for (name, tx) in txs {
                run_template(&tx, "language-level", &mut o, &json!({"file": case["file"], "tx": name}));
                o.key(hash64(&(src, name)));
            }
            return o;
        }
        const PROBES: [Probe; 5] = [Probe::Value, Probe::Query, Probe::Fees, Probe::QueryWithValue, Probe::TipSlot];
        let id = TreeId {
            outer: None,
            inner: case["inner"].as_u64().map(|x| x as usize),
            probe: PROBES[case["probe"].as_u64().unwrap_or(0) as usize],
            placement: case["placement"].as_u64().unwrap_or(0) as usize,
        };
        let tx = tirgen::build_tree(&id);
        run_template(&tx, "ir-level", &mut o, &json!({"tree": tirgen::describe(&id)}));
        o.key(hash64(&tirgen::describe(&id)));
        o
    }
}
