//! C09 — datums and redeemers are encoded as standard Plutus Data.
//!
//! Programs are generated from source (type definitions + constructor expressions), run through the whole
//! pipeline, and the inline datum / redeemer bytes of the emitted transaction are read back with the
//! independent Plutus-Data reader (`common::plutus`). Axes, each enumerated completely: constructor index
//! (N cases, case i), field shapes (<= 2 deviations), integers (every +-2^k, +-(2^k +- 1)), byte strings
//! of every length 0..100, each in datum and redeemer position.

use crate::common::cbor::BigInt;
use crate::common::pipeline::{base_address, lower_source, run_pipeline, RunCfg, PP};
use crate::common::plutus::PData;
use crate::common::{tirb, txdecode};
use crate::engine::dbx::{self, Chooser};
use crate::engine::{hash64, panics, Outcome, Prop, Sink, Tier, Violation};
use serde::{Deserialize, Serialize};
use serde_json::{json, Value};
use std::collections::BTreeMap;
use tx3_tir::model::assets::CanonicalAssets;
use tx3_tir::reduce::ArgValue;

pub struct C09;

#[derive(Debug, Clone, Serialize, Deserialize, PartialEq)]
pub enum V {
    Int(#[serde(with = "crate::common::i128_str")] i128),
    /// integer supplied through an Int parameter
    ParamInt(#[serde(with = "crate::common::i128_str")] i128),
    /// `!p` for an Int parameter p with this value
    NegParamInt(#[serde(with = "crate::common::i128_str")] i128),
    Bytes(Vec<u8>),
    ParamBytes(Vec<u8>),
    Str(String),
    /// the name of the policy `Pol` used as a value: its 28-byte hash
    PolicyName,
    /// the name of the party `P` used as a value: its address
    PartyName,
    Bool(bool),
    Unit,
    /// record type with the given fields (constructor 0)
    Rec(Vec<V>),
    /// case `case` of a variant type with `cases` cases; the chosen case has these fields
    Var { cases: usize, case: usize, fields: Vec<V> },
    List(Vec<V>),
    Map(Vec<(V, V)>),
}

#[derive(Debug, Clone, Copy, Serialize, Deserialize, PartialEq)]
pub enum Pos {
    Datum,
    MintRedeemer,
    InputRedeemer,
}

struct Render {
    /// how constructor fields are written: 0 = declaration order, 1 = reversed, 2 = rotated by one
    order: usize,
    types: Vec<String>,
    /// structural key -> type name (equal shapes share one definition)
    memo: BTreeMap<String, String>,
    params: Vec<(String, &'static str, ArgValue)>,
}

impl Render {
    fn type_of(&mut self, v: &V) -> String {
        match v {
            V::Int(_) | V::ParamInt(_) | V::NegParamInt(_) => "Int".into(),
            V::Bytes(_) | V::ParamBytes(_) | V::Str(_) | V::PolicyName => "Bytes".into(),
            V::PartyName => "Address".into(),
            V::Bool(_) => "Bool".into(),
            V::Unit => "Int".into(), // no unit type in the language; field types are not checked against values
            V::Rec(fs) => {
                let fts: Vec<String> = fs.iter().map(|f| self.type_of(f)).collect();
                let key = format!("rec({})", fts.join(","));
                if let Some(n) = self.memo.get(&key) {
                    return n.clone();
                }
                let name = format!("R{}", self.types.len());
                let body: String = fts.iter().enumerate().map(|(i, t)| format!("    f{i}: {t},\n")).collect();
                self.types.push(format!("type {name} {{\n{body}}}\n"));
                self.memo.insert(key, name.clone());
                name
            }
            V::Var { cases, case, fields } => {
                let fts: Vec<String> = fields.iter().map(|f| self.type_of(f)).collect();
                let key = format!("var({cases},{case},{})", fts.join(","));
                if let Some(n) = self.memo.get(&key) {
                    return n.clone();
                }
                let name = format!("V{}", self.types.len());
                let mut body = String::new();
                for c in 0..*cases {
                    if c == *case && !fts.is_empty() {
                        let fb: String = fts.iter().enumerate().map(|(i, t)| format!("        f{i}: {t},\n")).collect();
                        body.push_str(&format!("    K{c} {{\n{fb}    }},\n"));
                    } else {
                        body.push_str(&format!("    K{c},\n"));
                    }
                }
                self.types.push(format!("type {name} {{\n{body}}}\n"));
                self.memo.insert(key, name.clone());
                name
            }
            V::List(xs) => {
                let ts: Vec<String> = xs.iter().map(|x| self.type_of(x)).collect();
                format!("List<{}>", ts.first().cloned().unwrap_or("Int".into()))
            }
            V::Map(es) => {
                let ts: Vec<(String, String)> = es.iter().map(|(k, v)| (self.type_of(k), self.type_of(v))).collect();
                match ts.first() {
                    Some((k, v)) => format!("Map<{k}, {v}>"),
                    None => "Map<Int, Int>".into(),
                }
            }
        }
    }

    /// `fI: e,` entries in the configured written order (the denoted value keeps declaration order)
    fn written(&self, inner: Vec<String>) -> String {
        let mut items: Vec<String> = inner.iter().enumerate().map(|(i, e)| format!("f{i}: {e}, ")).collect();
        match self.order {
            1 => items.reverse(),
            2 if items.len() > 1 => items.rotate_left(1),
            _ => {}
        }
        items.concat()
    }

    fn expr(&mut self, v: &V) -> String {
        match v {
            V::Int(n) => n.to_string(),
            V::ParamInt(n) => {
                let name = format!("pi{}", self.params.len());
                self.params.push((name.clone(), "Int", ArgValue::Int(*n)));
                name
            }
            V::NegParamInt(n) => {
                let name = format!("pi{}", self.params.len());
                self.params.push((name.clone(), "Int", ArgValue::Int(*n)));
                format!("!{name}")
            }
            V::Bytes(b) if b.is_empty() => "\"\"".to_string(), // the grammar has no empty hex literal
            V::Bytes(b) => format!("0x{}", hex::encode(b)),
            V::ParamBytes(b) => {
                let name = format!("pb{}", self.params.len());
                self.params.push((name.clone(), "Bytes", ArgValue::Bytes(b.clone())));
                name
            }
            V::Str(s) => format!("\"{s}\""),
            V::PolicyName => "Pol".into(),
            V::PartyName => "P".into(),
            V::Bool(b) => b.to_string(),
            V::Unit => "()".into(),
            V::Rec(fs) => {
                let inner: Vec<String> = fs.iter().map(|f| self.expr(f)).collect();
                let name = self.type_of(v);
                let body = self.written(inner);
                format!("{name} {{ {body}}}")
            }
            V::Var { case, fields, .. } => {
                let inner: Vec<String> = fields.iter().map(|f| self.expr(f)).collect();
                let name = self.type_of(v);
                let body = self.written(inner);
                format!("{name}::K{case} {{ {body}}}")
            }
            V::List(xs) => {
                let inner: Vec<String> = xs.iter().map(|x| self.expr(x)).collect();
                format!("[{}]", inner.join(", "))
            }
            V::Map(es) => {
                let inner: Vec<String> = es
                    .iter()
                    .map(|(k, v)| {
                        let k = self.expr(k);
                        let v = self.expr(v);
                        format!("{k}: {v},")
                    })
                    .collect();
                format!("{{ {} }}", inner.join(" "))
            }
        }
    }
}

pub fn expected(v: &V) -> PData {
    match v {
        V::Int(n) | V::ParamInt(n) => PData::Int(BigInt::from_i128(*n)),
        V::NegParamInt(n) => PData::Int(BigInt::from_i128(-*n)),
        V::Bytes(b) | V::ParamBytes(b) => PData::Bytes(b.clone()),
        V::Str(s) => PData::Bytes(s.as_bytes().to_vec()),
        V::PolicyName => PData::Bytes(NAMED_POLICY.to_vec()),
        V::PartyName => PData::Bytes(base_address(1, 0)),
        V::Bool(b) => PData::Constr(*b as u64, vec![]),
        V::Unit => PData::Constr(0, vec![]),
        V::Rec(fs) => PData::Constr(0, fs.iter().map(expected).collect()),
        V::Var { case, fields, .. } => PData::Constr(*case as u64, fields.iter().map(expected).collect()),
        V::List(xs) => PData::List(xs.iter().map(expected).collect()),
        V::Map(es) => PData::Map(es.iter().map(|(k, v)| (expected(k), expected(v))).collect()),
    }
}

pub const MINT_POLICY: [u8; 28] = [0x5a; 28];
pub const NAMED_POLICY: [u8; 28] = [0x5b; 28];

pub fn render(v: &V, pos: Pos, order: usize) -> (String, tx3_tir::reduce::ArgMap) {
    let mut r = Render { order, types: vec![], memo: BTreeMap::new(), params: vec![] };
    r.type_of(v);
    let e = r.expr(v);
    let params: String = r.params.iter().map(|(n, t, _)| format!("{n}: {t}, ")).collect();
    let mut src = format!("party P;\npolicy Pol = 0x{};\n", hex::encode(NAMED_POLICY));
    for t in &r.types {
        src.push_str(t);
    }
    src.push_str(&format!("tx t({params}) {{\n"));
    match pos {
        Pos::InputRedeemer => src.push_str(&format!("    input src {{\n        from: P,\n        min_amount: fees,\n        redeemer: {e},\n    }}\n")),
        _ => src.push_str("    input src {\n        from: P,\n        min_amount: fees,\n    }\n"),
    }
    if pos == Pos::MintRedeemer {
        src.push_str(&format!(
            "    mint {{\n        amount: AnyAsset(0x{}, \"T\", 1),\n        redeemer: {e},\n    }}\n",
            hex::encode(MINT_POLICY)
        ));
    }
    match pos {
        Pos::Datum => src.push_str(&format!("    output {{\n        to: P,\n        amount: src - fees,\n        datum: {e},\n    }}\n")),
        _ => src.push_str("    output {\n        to: P,\n        amount: src - fees,\n    }\n"),
    }
    src.push_str("}\n");
    let mut args: tx3_tir::reduce::ArgMap = BTreeMap::new();
    args.insert("p".into(), ArgValue::Address(base_address(1, 0)));
    for (n, _, a) in r.params {
        args.insert(n, a);
    }
    (src, args)
}

fn shape_kind(v: &V) -> &'static str {
    match v {
        V::Int(_) | V::ParamInt(_) | V::NegParamInt(_) => "int",
        V::Bytes(_) | V::ParamBytes(_) => "bytes",
        V::Str(_) => "string",
        V::PolicyName => "policy-name",
        V::PartyName => "party-name",
        V::Bool(_) => "bool",
        V::Unit => "unit",
        V::Rec(_) => "record",
        V::Var { .. } => "variant",
        V::List(_) => "list",
        V::Map(_) => "map",
    }
}

/// classifies where expected and decoded data differ (first difference, outermost first)
fn diff_kind(exp: &PData, got: &PData) -> String {
    match (exp, got) {
        (PData::Constr(i, fs), PData::Constr(j, gs)) => {
            if i != j {
                let range = if *i < 7 {
                    "0-6"
                } else if *i < 128 {
                    "7-127"
                } else {
                    "128+"
                };
                return format!("constructor-index|{range}");
            }
            if fs.len() != gs.len() {
                return "field-count".into();
            }
            for (a, b) in fs.iter().zip(gs) {
                if a != b {
                    return format!("field:{}", diff_kind(a, b));
                }
            }
            "equal".into()
        }
        (PData::Int(_), PData::Int(_)) => "int-value".into(),
        (PData::Bytes(_), PData::Bytes(_)) => "bytes-value".into(),
        (PData::List(a), PData::List(b)) => {
            if a.len() != b.len() {
                return "list-length".into();
            }
            for (x, y) in a.iter().zip(b) {
                if x != y {
                    return format!("item:{}", diff_kind(x, y));
                }
            }
            "equal".into()
        }
        (PData::Map(a), PData::Map(b)) => {
            if a.len() != b.len() {
                return "map-length".into();
            }
            "map-entry".into()
        }
        _ => "kind".into(),
    }
}

fn int_class(v: &V) -> Option<&'static str> {
    fn go(v: &V, worst: &mut u8) {
        match v {
            V::Int(n) | V::ParamInt(n) => {
                let c = if *n >= -(1i128 << 63) && *n < (1i128 << 63) {
                    0
                } else if *n >= -(1i128 << 64) && *n < (1i128 << 64) {
                    1
                } else {
                    2
                };
                *worst = (*worst).max(c);
            }
            V::Rec(fs) | V::Var { fields: fs, .. } | V::List(fs) => fs.iter().for_each(|f| go(f, worst)),
            V::Map(es) => es.iter().for_each(|(k, v)| {
                go(k, worst);
                go(v, worst)
            }),
            _ => {}
        }
    }
    let mut w = 0;
    go(v, &mut w);
    match w {
        0 => None,
        1 => Some("int-beyond-i64"),
        _ => Some("int-beyond-64-bits"),
    }
}

pub fn judge(v: &V, pos: Pos, order: usize, o: &mut Outcome) {
    let (src, args) = render(v, pos, order);
    let exp = expected(v);
    let qual = format!("{}|{}", shape_kind(v), int_class(v).unwrap_or("-"));
    let posname = format!("{pos:?}");
    let tirs = match panics::catch(|| lower_source(&src)) {
        Err(p) => {
            o.class("front-panic");
            o.violate(Violation::new(format!("front-{}", p.signature()), format!("front end panicked: {}", p.message)).with_detail(json!({"src": src})));
            return;
        }
        Ok(Err(e)) => {
            o.class("front-rejected");
            o.violate(Violation::new(format!("front-rejected|{qual}"), format!("generated program rejected: {e}")).with_detail(json!({"src": src})));
            return;
        }
        Ok(Ok(t)) => t,
    };
    let tx = tirs.get("t").cloned().expect("tx t");
    let mut inputs = BTreeMap::new();
    inputs.insert(
        "src".to_string(),
        vec![tirb::utxo(tirb::utxo_ref(7, 0), &base_address(1, 0), CanonicalAssets::from_naked_amount(10_000_000))],
    );
    let cfg = RunCfg { pp: PP::default(), fee: 200_000, args, inputs };
    let res = panics::catch(|| run_pipeline(tx, &cfg));
    let compiled = match res {
        Err(p) => {
            o.class("pipeline-panic");
            o.violate(
                Violation::new(format!("pipeline-{}|{posname}|{qual}", p.signature()), format!("pipeline panicked: {}", crate::engine::first_line(&p.message, 160)))
                    .with_detail(json!({"src": src})),
            );
            return;
        }
        Ok(Err(e)) => {
            o.class(format!("pipeline-err:{}", e.stage));
            o.violate(
                Violation::new(format!("pipeline-err|{}|{posname}|{qual}", e.stage), format!("{}: {}", e.stage, crate::engine::first_line(&e.message, 200)))
                    .with_detail(json!({"src": src})),
            );
            return;
        }
        Ok(Ok((c, _))) => c,
    };
    let rec = match txdecode::decode_tx(&compiled.payload) {
        Ok(r) => r,
        Err(e) => {
            o.class("payload-undecodable");
            o.violate(Violation::new(format!("payload-undecodable|{posname}|{qual}"), e).with_detail(json!({"src": src, "payload": hex::encode(&compiled.payload)})));
            return;
        }
    };
    let raw: Option<Vec<u8>> = match pos {
        Pos::Datum => rec.outputs.iter().find_map(|o| o.datum_raw.clone()),
        Pos::MintRedeemer => rec.redeemers.iter().find(|r| r.tag == 1).map(|r| r.data_raw.clone()),
        Pos::InputRedeemer => rec.redeemers.iter().find(|r| r.tag == 0).map(|r| r.data_raw.clone()),
    };
    let Some(raw) = raw else {
        o.class("data-missing");
        o.violate(Violation::new(format!("data-missing|{posname}"), "no datum / redeemer in the emitted transaction").with_detail(json!({"src": src})));
        return;
    };
    match crate::common::plutus::read_bytes(&raw) {
        Err(e) => {
            o.class("not-plutus-data");
            o.violate(
                Violation::new(format!("not-plutus-data|{posname}|{qual}"), format!("bytes are not standard Plutus Data: {e}"))
                    .with_detail(json!({"src": src, "data": hex::encode(&raw), "expected": exp.to_string()})),
            );
        }
        Ok(got) => {
            if got == exp {
                o.class("decoded-equal");
            } else {
                o.class("decoded-differs");
                o.violate(
                    Violation::new(format!("decoded-differs|{}|{posname}", diff_kind(&exp, &got)), format!("expected {exp}, decoded {got}"))
                        .with_detail(json!({"src": src, "data": hex::encode(&raw)})),
                );
            }
        }
    }
}

fn field_kind(k: usize) -> V {
    match k {
        0 => V::Int(5),
        1 => V::Bytes(vec![0xAB, 0xCD]),
        2 => V::Bool(true),
        3 => V::Unit,
        4 => V::Rec(vec![V::Int(-3), V::Bytes(vec![])]),
        5 => V::List(vec![V::Int(1), V::Int(2)]),
        6 => V::Map(vec![(V::Int(1), V::Bytes(vec![7]))]),
        7 => V::Str("hi".into()),
        8 => V::Var { cases: 3, case: 2, fields: vec![V::Int(9)] },
        9 => V::Bool(false),
        10 => V::List(vec![]),
        // maps are association lists: the written order of their entries is part of the value (keys that are not in
        // ascending order, neither numerically nor as encoded bytes, nor by encoded length)
        12 => V::Map(vec![(V::Int(3), V::Int(30)), (V::Int(1), V::Int(10)), (V::Int(2), V::Int(20))]),
        13 => V::Map(vec![(V::Bytes(vec![0x62]), V::Int(1)), (V::Bytes(vec![0x61, 0x00]), V::Int(2)), (V::Bytes(vec![0x61]), V::Int(3))]),
        14 => V::Map(vec![(V::Int(-1), V::Unit), (V::Int(300), V::Unit), (V::Int(0), V::Unit), (V::Int(24), V::Unit)]),
        // names that stand for bytes: a policy (its hash), a party (its address), bare and inside a list / a map
        15 => V::PolicyName,
        16 => V::PartyName,
        17 => V::List(vec![V::PolicyName, V::Bytes(vec![1])]),
        18 => V::Map(vec![(V::PolicyName, V::PartyName)]),
        19 => V::Str("café 5€ 😀".into()),
        _ => V::List(vec![V::Rec(vec![V::Int(1)]), V::Rec(vec![V::Int(2)])]),
    }
}

fn gen_shape(c: &mut Chooser) -> (V, Pos, usize) {
    let pos = *c.pick(&[Pos::Datum, Pos::MintRedeemer, Pos::InputRedeemer]);
    let order = c.choose(3);
    let nfields = c.choose(7);
    let fields: Vec<V> = (0..nfields).map(|_| field_kind(c.choose(21))).collect();
    let wrapper = c.choose(3);
    let v = match wrapper {
        0 => V::Rec(fields),
        1 => V::Var { cases: 2, case: 1, fields },
        _ => V::List(fields),
    };
    (v, pos, order)
}

fn int_values() -> Vec<i128> {
    let mut v = vec![0i128];
    for k in 0..127u32 {
        let p = 1i128 << k;
        for x in [p - 1, p, p + 1] {
            v.push(x);
            v.push(-x);
        }
    }
    v.extend([i128::MAX, i128::MIN, i128::MIN + 1, i128::MAX - 1]);
    v.sort();
    v.dedup();
    // simplest first: by magnitude
    v.sort_by_key(|x| x.unsigned_abs());
    v
}

fn ctor_cases(tier: Tier) -> Vec<(usize, usize)> {
    let mut out = vec![];
    if tier.is_thorough() {
        for n in 1..=140 {
            for i in 0..n {
                out.push((n, i));
            }
        }
    } else {
        for n in [1usize, 2, 3, 7, 8, 9, 127, 128, 129, 140] {
            for i in [0usize, 1, 2, 5, 6, 7, 8, 126, 127, 128, n - 1] {
                if i < n && !out.contains(&(n, i)) {
                    out.push((n, i));
                }
            }
        }
    }
    out
}

const POSITIONS: [Pos; 3] = [Pos::Datum, Pos::MintRedeemer, Pos::InputRedeemer];

impl Prop for C09 {
    fn id(&self) -> &'static str {
        "C09"
    }
    fn rule(&self, tier: Tier) -> String {
        format!(
            "programs generated from source and run through parse/analyze/lower/apply/reduce/compile; data read back with an independent Plutus-Data \
             reader. Axes (each complete): constructor index: {} (N, i) pairs x 3 positions (datum, mint redeemer, input redeemer); field shapes: all \
             executions with <= 2 deviations of (position x written field order x 0..6 fields x 19 field kinds (incl. a policy name and a party name used as values) x record/variant/list wrapper); integers: every +-2^k, \
             +-(2^k +- 1), k < 127, i128 extremes ({} values) as parameter and (64-bit range) as literal, in datum and redeemer; byte strings of \
             every length 0..100 as parameter and literal. Non-trivial = the pipeline produced a payload and the data was decoded and compared; \
             distinct = distinct (value, position).",
            ctor_cases(tier).len(),
            int_values().len()
        )
    }
    fn assumptions(&self) -> Vec<String> {
        vec![
            "expected encoding: records = Constr 0, variant case i = Constr i with fields in declaration order, Bool false/true = Constr 0/1, unit = Constr 0, strings = bytes".into(),
            "my Plutus-Data reader (plutus-core CDDL: tags 121-127, 1280-1400, 102; bignums; 64-byte bounded chunks) is the trusted decoder".into(),
        ]
    }
    fn bound(&self, tier: Tier) -> String {
        format!("{} (N,i) pairs; field shapes <= 2 deviations; all boundary ints; bytes 0..100 x 5 contents", ctor_cases(tier).len())
    }

    fn enumerate(&self, tier: Tier, sink: &mut Sink) {
        for (n, i) in ctor_cases(tier) {
            for pos in POSITIONS {
                if pos != Pos::Datum && !(tier.is_thorough() || [1, 7, 8, 128, 140].contains(&n)) {
                    continue;
                }
                sink.case(|| json!({"kind": "ctor-index", "pos": pos, "value": V::Var { cases: n, case: i, fields: vec![] }}));
            }
        }
        let mut gen = |c: &mut Chooser| gen_shape(c);
        dbx::explore(2, &mut gen, &mut |choices, _d, (v, pos, order)| {
            sink.case(|| json!({"kind": "shape", "choices": choices, "pos": pos, "order": order, "value": v}));
        });
        // every written order of a fixed 3-field record / variant, in each position
        for order in 0..3usize {
            for pos in POSITIONS {
                let fields = vec![V::Int(11), V::Bytes(vec![0xAA, 0xBB]), V::Int(3)];
                sink.case(|| json!({"kind": "written-order", "pos": pos, "order": order, "value": V::Rec(fields.clone())}));
                sink.case(|| json!({"kind": "written-order", "pos": pos, "order": order, "value": V::Var { cases: 3, case: 1, fields: fields.clone() }}));
            }
        }
        // values written with an operator or a name, in every position: a negated parameter, a policy name, a party
        // name - bare in a record, in a variant case, in a list, as map key and value
        for pos in POSITIONS {
            for leaf in [V::NegParamInt(5), V::NegParamInt(-7), V::PolicyName, V::PartyName, V::Str("café 5€ 😀".into()), V::Str("ß".into())] {
                let shapes = [
                    V::Rec(vec![V::Int(1), leaf.clone()]),
                    V::Var { cases: 3, case: 2, fields: vec![leaf.clone()] },
                    V::Rec(vec![V::List(vec![leaf.clone(), leaf.clone()])]),
                    V::Rec(vec![V::Map(vec![(leaf.clone(), leaf.clone())])]),
                ];
                for v in shapes {
                    sink.case(|| json!({"kind": "named-or-computed-leaf", "pos": pos, "value": v}));
                }
            }
        }
        for n in int_values() {
            for pos in [Pos::Datum, Pos::MintRedeemer] {
                sink.case(|| json!({"kind": "int-param", "pos": pos, "value": V::Rec(vec![V::ParamInt(n)])}));
                if n >= i64::MIN as i128 && n <= i64::MAX as i128 && pos == Pos::Datum {
                    sink.case(|| json!({"kind": "int-literal", "pos": pos, "value": V::Rec(vec![V::Int(n)])}));
                }
            }
            sink.case(|| json!({"kind": "int-param-bare", "pos": Pos::Datum, "value": V::List(vec![V::ParamInt(n)])}));
        }
        // byte strings of every length with five contents: a ramp, all zero, zeros up to a last 0xff, all 0xff, a zero
        // byte before the ramp (bytes are not numbers: leading and trailing zeros are content)
        for len in 0..=100usize {
            for pattern in 0..5usize {
                if len == 0 && pattern > 0 {
                    continue;
                }
                let b: Vec<u8> = (0..len)
                    .map(|i| match pattern {
                        0 => (i * 7 + 1) as u8,
                        1 => 0,
                        2 => if i + 1 == len { 0xff } else { 0 },
                        3 => 0xff,
                        _ => if i == 0 { 0 } else { (i * 7 + 1) as u8 },
                    })
                    .collect();
                for pos in [Pos::Datum, Pos::InputRedeemer] {
                    sink.case(|| json!({"kind": "bytes-param", "pos": pos, "value": V::Rec(vec![V::ParamBytes(b.clone())])}));
                }
                if len > 0 {
                    sink.case(|| json!({"kind": "bytes-literal", "pos": Pos::Datum, "value": V::Rec(vec![V::Bytes(b.clone())])}));
                }
                if len <= 3 || len == 64 || len == 65 {
                    // as list item and as map key / value (the second encoder)
                    for pos in [Pos::Datum, Pos::MintRedeemer] {
                        sink.case(|| json!({"kind": "bytes-nested", "pos": pos, "value": V::Rec(vec![V::List(vec![V::Bytes(b.clone()), V::ParamBytes(b.clone())]), V::Map(vec![(V::Bytes(b.clone()), V::ParamBytes(b.clone()))])])}));
                    }
                }
            }
        }
    }

    fn run(&self, case: &Value) -> Outcome {
        let mut o = Outcome::default();
        let v: V = serde_json::from_value(case["value"].clone()).expect("value");
        let pos: Pos = serde_json::from_value(case["pos"].clone()).expect("pos");
        o.evals = 1;
        judge(&v, pos, case["order"].as_u64().unwrap_or(0) as usize, &mut o);
        if o.classes.keys().any(|k| k.starts_with("decoded") || k == "not-plutus-data") {
            o.key(hash64(&case.to_string()));
        }
        o
    }
}
