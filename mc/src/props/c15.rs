//! C15 — multi-asset values obey the algebra that balance computations assume.
//!
//! Reference model: vectors in Z^3 (lovelace, T1, T2) held in a BTreeMap with zero entries dropped.
//! Everything is enumerated completely: all triples over amounts -2..2, all pairs x every construction
//! path, and a boundary sweep over wide amounts and policy / name lengths.

use crate::common::{boundary_ints, bytes_of_len};
use crate::engine::{hash64, Outcome, Prop, Sink, Tier, Violation};
use serde_json::{json, Value};
use std::collections::BTreeMap;
use tx3_tir::model::assets::{AssetClass, CanonicalAssets};
use tx3_tir::model::v1beta0::{AssetExpr, BuiltInOp, Expression};
use tx3_tir::reduce::Apply as _;

pub struct C15;

type RefVec = BTreeMap<AssetClass, i128>;

fn p1() -> Vec<u8> {
    bytes_of_len(28, 1)
}
fn p2() -> Vec<u8> {
    bytes_of_len(28, 2)
}

fn classes() -> [AssetClass; 3] {
    [
        AssetClass::Naked,
        AssetClass::Defined(p1(), b"T1".to_vec()),
        AssetClass::Defined(p2(), b"T2".to_vec()),
    ]
}

fn vec_of(ix: usize) -> [i128; 3] {
    // 125 vectors, amounts -2..2; index 62 is the zero vector. Order: simplest (smallest |amounts|) first
    // is not needed here because every case is a block.
    let a = (ix % 5) as i128 - 2;
    let b = ((ix / 5) % 5) as i128 - 2;
    let c = ((ix / 25) % 5) as i128 - 2;
    [a, b, c]
}

fn to_ref(v: &[i128; 3]) -> RefVec {
    let cl = classes();
    let mut m = RefVec::new();
    for i in 0..3 {
        if v[i] != 0 {
            m.insert(cl[i].clone(), v[i]);
        }
    }
    m
}

fn ref_of(x: &CanonicalAssets) -> RefVec {
    let mut m = RefVec::new();
    for (k, v) in x.iter() {
        if *v != 0 {
            m.insert(k.clone(), *v);
        }
    }
    m
}

fn ref_add(a: &RefVec, b: &RefVec) -> RefVec {
    let mut m = a.clone();
    for (k, v) in b {
        *m.entry(k.clone()).or_insert(0) += v;
    }
    m.retain(|_, v| *v != 0);
    m
}

fn ref_neg(a: &RefVec) -> RefVec {
    a.iter().map(|(k, v)| (k.clone(), -v)).collect()
}

fn ref_sub(a: &RefVec, b: &RefVec) -> RefVec {
    ref_add(a, &ref_neg(b))
}

pub const PATHS: usize = 10;
const PATH_NAMES: [&str; PATHS] = [
    "sum-of-singletons",
    "sum-with-explicit-zeros",
    "sum-reversed",
    "named-constructors",
    "from_asset",
    "difference",
    "double-negation",
    "asset-expr-roundtrip",
    "cbor-roundtrip",
    "decoded-with-an-entry-for-every-class",
];

fn single(i: usize, amount: i128) -> CanonicalAssets {
    CanonicalAssets::from_class_and_amount(classes()[i].clone(), amount)
}

/// Builds the value denoted by `v` through construction path `p`.
fn build(v: &[i128; 3], p: usize) -> CanonicalAssets {
    match p {
        0 => {
            let mut acc = CanonicalAssets::empty();
            for i in 0..3 {
                if v[i] != 0 {
                    acc = acc + single(i, v[i]);
                }
            }
            acc
        }
        1 => {
            // explicit zero entries: a lone constructor keeps its zero
            let nz: Vec<usize> = (0..3).filter(|i| v[*i] != 0).collect();
            if nz.is_empty() {
                CanonicalAssets::from_naked_amount(0)
            } else if nz.len() == 1 {
                // singleton built directly, nothing dropped
                single(nz[0], v[nz[0]])
            } else {
                let mut acc = single(0, v[0]);
                for i in 1..3 {
                    acc = acc + single(i, v[i]);
                }
                acc
            }
        }
        2 => {
            let mut acc = CanonicalAssets::empty();
            for i in (0..3).rev() {
                if v[i] != 0 {
                    acc = single(i, v[i]) + acc;
                }
            }
            acc
        }
        3 => {
            let mut acc = CanonicalAssets::empty();
            if v[0] != 0 {
                acc = acc + CanonicalAssets::from_naked_amount(v[0]);
            }
            if v[1] != 0 {
                acc = acc + CanonicalAssets::from_defined_asset(&p1(), b"T1", v[1]);
            }
            if v[2] != 0 {
                acc = acc + CanonicalAssets::from_defined_asset(&p2(), b"T2", v[2]);
            }
            acc
        }
        4 => {
            // from_asset, including the documented fall-throughs (empty policy and name = lovelace)
            let a = CanonicalAssets::from_asset(Some(&[]), Some(&[]), v[0]);
            let b = CanonicalAssets::from_asset(Some(&p1()), Some(b"T1"), v[1]);
            let c = CanonicalAssets::from_asset(Some(&p2()), Some(b"T2"), v[2]);
            a + b + c
        }
        5 => {
            // (v + w) - w
            let w = [1i128, 1, 1];
            let vw = [v[0] + 1, v[1] + 1, v[2] + 1];
            build(&vw, 0) - build(&w, 0)
        }
        6 => -(-build(v, 0)),
        7 => {
            let exprs: Vec<AssetExpr> = build(v, 0).into();
            CanonicalAssets::from(exprs)
        }
        8 => {
            let mut buf = Vec::new();
            ciborium::into_writer(&build(v, 0), &mut buf).unwrap();
            ciborium::from_reader(buf.as_slice()).unwrap()
        }
        9 => {
            // as a client may send it: an entry for every class, zero amounts written out (each decoded map iterates
            // in an order of its own)
            let all: std::collections::HashMap<AssetClass, i128> = (0..3).map(|i| (classes()[i].clone(), v[i])).collect();
            let mut buf = Vec::new();
            ciborium::into_writer(&all, &mut buf).unwrap();
            ciborium::from_reader(buf.as_slice()).unwrap()
        }
        _ => unreachable!(),
    }
}

fn assets_expr(v: &[i128; 3], variant: usize) -> Expression {
    // variant 0: canonical list; 1: explicit zeros kept; 2: amounts split in two entries
    let mut out = vec![];
    let cl = classes();
    for i in 0..3 {
        let (policy, name) = match &cl[i] {
            AssetClass::Naked => (Expression::None, Expression::None),
            AssetClass::Defined(p, n) => (Expression::Bytes(p.clone()), Expression::Bytes(n.clone())),
            AssetClass::Named(n) => (Expression::None, Expression::Bytes(n.clone())),
        };
        let mk = |amount: i128| AssetExpr {
            policy: policy.clone(),
            asset_name: name.clone(),
            amount: Expression::Number(amount),
        };
        match variant {
            0 => {
                if v[i] != 0 {
                    out.push(mk(v[i]));
                }
            }
            1 => out.push(mk(v[i])),
            _ => {
                out.push(mk(v[i] - 1));
                out.push(mk(1));
            }
        }
    }
    Expression::Assets(out)
}

fn ref_of_expr(e: &Expression) -> Option<RefVec> {
    let Expression::Assets(list) = e else { return None };
    let mut m = RefVec::new();
    for a in list {
        let policy = match &a.policy {
            Expression::None => None,
            Expression::Bytes(b) => Some(b.clone()),
            _ => return None,
        };
        let name = match &a.asset_name {
            Expression::None => None,
            Expression::Bytes(b) => Some(b.clone()),
            Expression::String(s) => Some(s.as_bytes().to_vec()),
            _ => return None,
        };
        let Expression::Number(n) = a.amount else { return None };
        let class = match (policy, name) {
            (Some(p), Some(n)) if !p.is_empty() => AssetClass::Defined(p, n),
            (Some(p), None) if !p.is_empty() => AssetClass::Defined(p, vec![]),
            (_, Some(n)) if !n.is_empty() => AssetClass::Named(n),
            _ => AssetClass::Naked,
        };
        *m.entry(class).or_insert(0) += n;
    }
    m.retain(|_, v| *v != 0);
    Some(m)
}

fn show(r: &RefVec) -> String {
    let parts: Vec<String> = r.iter().map(|(k, v)| format!("{k}:{v}")).collect();
    format!("{{{}}}", parts.join(", "))
}

struct Judge {
    o: Outcome,
}

impl Judge {
    fn check(&mut self, ok: bool, law: &str, sig_kind: &str, what: impl FnOnce() -> String) {
        self.o.evals += 1;
        if ok {
            *self.o.classes.entry(format!("{law}:holds")).or_default() += 1;
        } else {
            *self.o.classes.entry(format!("{law}:fails")).or_default() += 1;
            self.o
                .violate(Violation::new(format!("{law}|{sig_kind}"), what()));
        }
    }
}

fn has_explicit_zero(x: &CanonicalAssets) -> bool {
    x.iter().any(|(_, v)| *v == 0)
}

/// all (b, c) for one a: homomorphism of + / - / neg into Z^3, derived PartialEq on results
fn run_triples(ai: usize) -> Outcome {
    let mut j = Judge { o: Outcome::default() };
    let a = vec_of(ai);
    let ra = to_ref(&a);
    for bi in 0..125 {
        let b = vec_of(bi);
        let rb = to_ref(&b);
        let ab = build(&a, 0) + build(&b, 0);
        let ba = build(&b, 0) + build(&a, 0);
        j.check(ref_of(&ab) == ref_add(&ra, &rb), "add-homomorphic", "wrong-sum", || {
            format!("{} + {} gave {}", show(&ra), show(&rb), show(&ref_of(&ab)))
        });
        j.check(ab == ba, "add-commutes", "eq-false", || {
            format!("a+b != b+a under == for a={} b={}", show(&ra), show(&rb))
        });
        let amb = build(&a, 0) - build(&b, 0);
        j.check(ref_of(&amb) == ref_sub(&ra, &rb), "sub-homomorphic", "wrong-difference", || {
            format!("{} - {} gave {}", show(&ra), show(&rb), show(&ref_of(&amb)))
        });
        let a_plus_negb = build(&a, 0) + (-build(&b, 0));
        j.check(amb == a_plus_negb, "sub-is-add-neg", "eq-false", || {
            format!("a-b != a+(-b) under == for a={} b={}", show(&ra), show(&rb))
        });
        let back = amb.clone() + build(&b, 0);
        j.check(back == build(&a, 0), "sub-then-add", "eq-false", || {
            format!("(a-b)+b != a under == for a={} b={}", show(&ra), show(&rb))
        });
        for ci in 0..125 {
            let c = vec_of(ci);
            let rc = to_ref(&c);
            let l = (build(&a, 0) + build(&b, 0)) + build(&c, 0);
            let r = build(&a, 0) + (build(&b, 0) + build(&c, 0));
            let expect = ref_add(&ref_add(&ra, &rb), &rc);
            let ok = l == r && ref_of(&l) == expect;
            j.check(ok, "add-associates", "mismatch", || {
                format!(
                    "(a+b)+c={} a+(b+c)={} expected {} for a={} b={} c={}",
                    show(&ref_of(&l)),
                    show(&ref_of(&r)),
                    show(&expect),
                    show(&ra),
                    show(&rb),
                    show(&rc)
                )
            });
            j.o.key(hash64(&("assoc", ai, bi, ci)));
        }
        j.o.key(hash64(&("pair", ai, bi)));
    }
    j.o
}

/// all b x all construction paths for one a: semantic equality, predicates, containment
fn run_paths(ai: usize) -> Outcome {
    let mut j = Judge { o: Outcome::default() };
    let a = vec_of(ai);
    let ra = to_ref(&a);
    for p in 0..PATHS {
        let xa = build(&a, p);
        j.check(ref_of(&xa) == ra, "construction", PATH_NAMES[p], || {
            format!("path {} built {} for {}", PATH_NAMES[p], show(&ref_of(&xa)), show(&ra))
        });
        j.check(xa.is_empty() == ra.is_empty(), "is_empty", PATH_NAMES[p], || {
            format!("is_empty({}) = {} via {}", show(&ra), xa.is_empty(), PATH_NAMES[p])
        });
        let neg = ra.values().all(|v| *v <= 0);
        j.check(xa.is_empty_or_negative() == neg, "is_empty_or_negative", PATH_NAMES[p], || {
            format!("is_empty_or_negative({}) = {}", show(&ra), xa.is_empty_or_negative())
        });
        // negation keeps the meaning on every path
        let n = -xa.clone();
        j.check(ref_of(&n) == ref_neg(&ra), "neg-homomorphic", PATH_NAMES[p], || {
            format!("-{} gave {}", show(&ra), show(&ref_of(&n)))
        });

        for bi in 0..125 {
            let b = vec_of(bi);
            let rb = to_ref(&b);
            for q in 0..PATHS {
                let xb = build(&b, q);
                // equality is semantic: == agrees with vector equality whatever the path
                let eq = xa == xb;
                let zero_kind = if has_explicit_zero(&xa) || has_explicit_zero(&xb) {
                    "explicit-zero-entry"
                } else {
                    "no-zero-entry"
                };
                j.check(eq == (ra == rb), "eq-semantic", zero_kind, || {
                    format!(
                        "{} (via {}) == {} (via {}) evaluated to {}",
                        show(&ra),
                        PATH_NAMES[p],
                        show(&rb),
                        PATH_NAMES[q],
                        eq
                    )
                });
                // arithmetic does not depend on the path
                let s = xa.clone() + xb.clone();
                j.check(ref_of(&s) == ref_add(&ra, &rb), "add-any-path", "wrong-sum", || {
                    format!("{} + {} gave {}", show(&ra), show(&rb), show(&ref_of(&s)))
                });
                let d = xa.clone() - xb.clone();
                j.check(ref_of(&d) == ref_sub(&ra, &rb), "sub-any-path", "wrong-difference", || {
                    format!("{} - {} gave {}", show(&ra), show(&rb), show(&ref_of(&d)))
                });
                // containment is the component-wise order on non-negative amounts
                let nonneg = a.iter().all(|x| *x >= 0) && b.iter().all(|x| *x >= 0);
                if nonneg {
                    let expect = (0..3).all(|i| a[i] >= b[i]);
                    let got = xa.contains_total(&xb);
                    j.check(got == expect, "contains_total", "order-mismatch", || {
                        format!("contains_total({}, {}) = {}", show(&ra), show(&rb), got)
                    });
                    let expect_some = rb.is_empty() || (0..3).any(|i| b[i] > 0 && a[i] > 0);
                    let got_some = xa.contains_some(&xb);
                    j.check(got_some == expect_some, "contains_some", "mismatch", || {
                        format!("contains_some({}, {}) = {}", show(&ra), show(&rb), got_some)
                    });
                }
            }
            if p == 0 {
                j.o.key(hash64(&("paths", ai, bi)));
            }
        }
    }
    j.o
}

/// the same laws through BuiltInOp::{Add, Sub, Negate} reduction over Expression::Assets
fn run_reduce(ai: usize) -> Outcome {
    let mut j = Judge { o: Outcome::default() };
    let a = vec_of(ai);
    let ra = to_ref(&a);
    for va in 0..3 {
        let ea = assets_expr(&a, va);
        let n = Expression::EvalBuiltIn(Box::new(BuiltInOp::Negate(ea.clone()))).reduce();
        let got = n.as_ref().ok().and_then(ref_of_expr);
        j.check(got == Some(ref_neg(&ra)), "reduce-neg", "mismatch", || {
            format!("reduce(-{}) = {:?}", show(&ra), n)
        });
        for bi in 0..125 {
            let b = vec_of(bi);
            let rb = to_ref(&b);
            for vb in 0..3 {
                let eb = assets_expr(&b, vb);
                let s = Expression::EvalBuiltIn(Box::new(BuiltInOp::Add(ea.clone(), eb.clone()))).reduce();
                let got = s.as_ref().ok().and_then(ref_of_expr);
                j.check(got == Some(ref_add(&ra, &rb)), "reduce-add", "mismatch", || {
                    format!("reduce({} + {}) = {:?}", show(&ra), show(&rb), s)
                });
                let d = Expression::EvalBuiltIn(Box::new(BuiltInOp::Sub(ea.clone(), eb.clone()))).reduce();
                let got = d.as_ref().ok().and_then(ref_of_expr);
                j.check(got == Some(ref_sub(&ra, &rb)), "reduce-sub", "mismatch", || {
                    format!("reduce({} - {}) = {:?}", show(&ra), show(&rb), d)
                });
            }
            if va == 0 {
                j.o.key(hash64(&("reduce", ai, bi)));
            }
        }
    }
    j.o
}

fn wide_amounts() -> Vec<i128> {
    let lim = 1i128 << 126;
    boundary_ints().into_iter().filter(|x| *x >= -lim && *x <= lim).collect()
}

const LENS: [usize; 5] = [0, 1, 28, 32, 64];

fn class_for(pl: usize, nl: usize) -> (Vec<u8>, Vec<u8>, AssetClass) {
    let p = bytes_of_len(pl, 9);
    let n = bytes_of_len(nl, 5);
    let class = if pl == 0 {
        if nl == 0 {
            AssetClass::Naked
        } else {
            AssetClass::Named(n.clone())
        }
    } else {
        AssetClass::Defined(p.clone(), n.clone())
    };
    (p, n, class)
}

/// wide amounts x policy / name lengths (one class configuration per case)
fn run_boundary(pl: usize, nl: usize) -> Outcome {
    let mut j = Judge { o: Outcome::default() };
    let (p, n, class) = class_for(pl, nl);
    let amounts = wide_amounts();
    let half = 1i128 << 125;
    for (xi, x) in amounts.iter().enumerate() {
        let a = CanonicalAssets::from_asset(Some(&p), Some(&n), *x);
        let mut ra = RefVec::new();
        if *x != 0 {
            ra.insert(class.clone(), *x);
        }
        j.check(ref_of(&a) == ra, "boundary-construction", "wrong-class-or-amount", || {
            format!("from_asset(len {pl}, len {nl}, {x}) = {}", show(&ref_of(&a)))
        });
        let rt: Vec<AssetExpr> = a.clone().into();
        let back = CanonicalAssets::from(rt);
        j.check(ref_of(&back) == ra, "boundary-asset-expr-roundtrip", "changed", || {
            format!("round trip of {} gave {}", show(&ra), show(&ref_of(&back)))
        });
        for (yi, y) in amounts.iter().enumerate() {
            if x.abs() > half && y.abs() > half {
                continue; // would overflow i128: outside the quantifier ("without overflow")
            }
            // second operand in the same class and in lovelace
            for other_naked in [false, true] {
                let (b, rb) = if other_naked {
                    let mut r = RefVec::new();
                    if *y != 0 {
                        r.insert(AssetClass::Naked, *y);
                    }
                    (CanonicalAssets::from_naked_amount(*y), r)
                } else {
                    let mut r = RefVec::new();
                    if *y != 0 {
                        r.insert(class.clone(), *y);
                    }
                    (CanonicalAssets::from_asset(Some(&p), Some(&n), *y), r)
                };
                let s = a.clone() + b.clone();
                j.check(ref_of(&s) == ref_add(&ra, &rb), "boundary-add", "wrong-sum", || {
                    format!("{} + {} gave {}", show(&ra), show(&rb), show(&ref_of(&s)))
                });
                let d = a.clone() - b.clone();
                j.check(ref_of(&d) == ref_sub(&ra, &rb), "boundary-sub", "wrong-difference", || {
                    format!("{} - {} gave {}", show(&ra), show(&rb), show(&ref_of(&d)))
                });
                let back = d + b.clone();
                j.check(ref_of(&back) == ra, "boundary-sub-then-add", "changed", || {
                    format!("({} - {}) + same gave {}", show(&ra), show(&rb), show(&ref_of(&back)))
                });
            }
            j.o.key(hash64(&("boundary", pl, nl, xi, yi)));
        }
    }
    j.o
}

impl Prop for C15 {
    fn id(&self) -> &'static str {
        "C15"
    }

    fn rule(&self, _tier: Tier) -> String {
        "complete enumeration: (1) all ordered triples (a,b,c) of vectors over 3 asset classes with amounts -2..2 \
         (125^3) for associativity, all pairs for commutativity / a-b=a+(-b) / (a-b)+b=a; (2) all pairs x all 9x9 \
         construction paths for semantic ==, is_empty, is_empty_or_negative, contains_total, contains_some, \
         path-independent + and -; (3) the same laws through reduce of BuiltInOp Add/Sub/Negate over \
         Expression::Assets in 3 list shapes; (4) boundary sweep: all pairs of wide amounts (|x| <= 2^126, no overflow) \
         x policy/name lengths {0,1,28,32,64}^2. A case is non-trivial when the reference vector is defined and the \
         implementation returned a value that was compared; distinct = distinct (family, operand indices)."
            .into()
    }

    fn assumptions(&self) -> Vec<String> {
        vec![
            "reference = BTreeMap<AssetClass,i128> with zero entries dropped (Z^3)".into(),
            "amounts outside the enumerated alphabets are not covered".into(),
            "containment is only judged on non-negative operands, as the property states".into(),
        ]
    }

    fn bound(&self, _tier: Tier) -> String {
        "amounts -2..2 over 3 classes, all triples; 9 construction paths; 33 wide amounts x 25 class shapes".into()
    }

    fn enumerate(&self, _tier: Tier, sink: &mut Sink) {
        for ai in 0..125 {
            sink.case(|| json!({"kind": "paths", "a": ai}));
        }
        for ai in 0..125 {
            sink.case(|| json!({"kind": "triples", "a": ai}));
        }
        for ai in 0..125 {
            sink.case(|| json!({"kind": "reduce", "a": ai}));
        }
        for pl in LENS {
            for nl in LENS {
                sink.case(|| json!({"kind": "boundary", "policy_len": pl, "name_len": nl}));
            }
        }
    }

    fn run(&self, case: &Value) -> Outcome {
        let kind = case["kind"].as_str().unwrap_or("");
        let a = case["a"].as_u64().unwrap_or(0) as usize;
        match kind {
            "paths" => run_paths(a),
            "triples" => run_triples(a),
            "reduce" => run_reduce(a),
            "boundary" => run_boundary(
                case["policy_len"].as_u64().unwrap_or(0) as usize,
                case["name_len"].as_u64().unwrap_or(0) as usize,
            ),
            _ => Outcome::default(),
        }
    }
}
