//! C02 — quantities are never silently wrapped, truncated or dropped; value is preserved.
//!
//! The (balanced by construction) programs of the typed generator are run with every value of the boundary
//! alphabet as the integer argument and with stores holding ordinary, huge and insufficient amounts, both
//! through the staged pipeline with an explicit fee and through `resolve_tx` with a real store. The
//! reference semantics computes every quantity exactly: a transaction that comes out must carry exactly
//! those quantities and balance; if an exact value does not fit its ledger field the operation must fail.

use super::c01::{compare, execute_with, Run};
use crate::common::pipeline::{compiler, lower_source, PP};
use crate::common::sem::{self, Denotation};
use crate::common::store::MemStore;
use crate::common::txdecode::{self, TxRec};
use crate::common::boundary_ints;
use crate::engine::dbx::{self, Chooser};
use crate::engine::{hash64, panics, Outcome, Prop, Sink, Tier, Violation};
use crate::gen::prog::{self, Scenario};
use serde_json::{json, Value};
use std::collections::BTreeMap;
use tx3_tir::encoding::AnyTir;
use tx3_tir::model::core::Utxo;

pub struct C02;

fn k_for(tier: Tier) -> usize {
    if tier.is_thorough() {
        2
    } else {
        1
    }
}

fn extras() -> Vec<i128> {
    vec![0, (1i128 << 62), (1i128 << 63) - 1 - 5_000_000, (1i128 << 64) - 1 - 5_000_000, -4_999_999]
}

fn reason_class(r: &str) -> &'static str {
    if r.contains("negative lovelace") {
        "negative-lovelace-in-output"
    } else if r.contains("negative native asset") {
        "negative-asset-in-output"
    } else if r.contains("zero mint") {
        "zero-mint"
    } else if r.contains("slot") {
        "slot-outside-u64"
    } else if r.contains("metadata integer") {
        "metadata-integer-out-of-range"
    } else if r.contains("metadata label") {
        "metadata-label-out-of-range"
    } else if r.contains("overflow") {
        "arithmetic-overflow"
    } else if r.contains("output index") {
        "output-index-beyond-32-bits"
    } else if r.contains("beyond 64 bits") {
        "amount-beyond-64-bits"
    } else if r.contains("list index") {
        "list-index-out-of-range"
    } else {
        "other"
    }
}

fn balance(rec: &TxRec, utxos: &BTreeMap<String, Vec<Utxo>>) -> Option<String> {
    let net = balance_net(rec, utxos)?;
    if net.is_empty() {
        None
    } else {
        Some(format!("consumed + minted - produced - fee = {:?}", net.iter().map(|((p, n), v)| format!("{}.{}:{v}", hex::encode(&p[..2.min(p.len())]), String::from_utf8_lossy(n))).collect::<Vec<_>>()))
    }
}

/// consumed + mint + withdrawals - produced - fee - donation per asset class, zero entries dropped (None when an
/// amount of the transaction does not fit the arithmetic)
fn balance_net(rec: &TxRec, utxos: &BTreeMap<String, Vec<Utxo>>) -> Option<BTreeMap<(Vec<u8>, Vec<u8>), i128>> {
    let mut net: BTreeMap<(Vec<u8>, Vec<u8>), i128> = BTreeMap::new();
    for (name, us) in utxos {
        if name == "collateral" {
            continue;
        }
        for u in us {
            if !rec.inputs.iter().any(|(t, i)| *t == u.r#ref.txid && *i == u.r#ref.index as u64) {
                continue;
            }
            for (c, n) in u.assets.iter() {
                let k = match c {
                    tx3_tir::model::assets::AssetClass::Naked => (vec![], vec![]),
                    tx3_tir::model::assets::AssetClass::Named(n) => (vec![], n.clone()),
                    tx3_tir::model::assets::AssetClass::Defined(p, n) => (p.clone(), n.clone()),
                };
                *net.entry(k).or_insert(0) += *n;
            }
        }
    }
    for (k, v) in &rec.mint {
        *net.entry(k.clone()).or_insert(0) += v.to_i128()?;
    }
    for o in &rec.outputs {
        *net.entry((vec![], vec![])).or_insert(0) -= o.lovelace as i128;
        for (k, v) in &o.assets {
            *net.entry(k.clone()).or_insert(0) -= v.to_i128()?;
        }
    }
    *net.entry((vec![], vec![])).or_insert(0) -= rec.fee as i128;
    // withdrawals are consumed, a treasury donation is spent
    for (_, n) in &rec.withdrawals {
        *net.entry((vec![], vec![])).or_insert(0) += *n as i128;
    }
    *net.entry((vec![], vec![])).or_insert(0) -= rec.donation.unwrap_or(0) as i128;
    net.retain(|_, v| *v != 0);
    Some(net)
}

fn judge_ok(sc: &Scenario, den: &Denotation, rec: &TxRec, utxos: &BTreeMap<String, Vec<Utxo>>, path: &str, o: &mut Outcome, detail: &Value) {
    match den {
        Denotation::Tx(exp) => {
            let d = compare(exp, rec);
            let numeric: Vec<&(String, String)> = d
                .iter()
                .filter(|(f, _)| matches!(f.as_str(), "output.lovelace" | "output.assets" | "mint" | "ttl" | "validity-start" | "metadata" | "fee" | "output.datum" | "outputs.count"))
                .collect();
            if numeric.is_empty() {
                o.class(format!("{path}:exact"));
            } else {
                o.class(format!("{path}:wrong-quantity"));
                for (f, what) in numeric {
                    o.violate(Violation::new(format!("wrong-quantity|{f}|{path}"), what.clone()).with_detail(detail.clone()));
                }
            }
            if let Some(b) = balance(rec, utxos) {
                o.violate(Violation::new(format!("unbalanced|{path}"), b).with_detail(detail.clone()));
            }
        }
        Denotation::MustFail(reason) => {
            o.class(format!("{path}:must-fail-but-ok"));
            o.violate(
                Violation::new(
                    format!("not-an-error|{}|{path}", reason_class(reason)),
                    format!("{reason}, yet a transaction was produced (q = {}, n = {})", sc.q, sc.n),
                )
                .with_detail(detail.clone()),
            );
        }
        Denotation::Undefined(_) => o.class(format!("{path}:undefined")),
    }
}

fn run_scenario(sc: &Scenario, src: &str, lowered: Option<&tx3_tir::model::v1beta0::Tx>, o: &mut Outcome) {
    let detail = |src: &str| json!({"source": src, "q": sc.q.to_string(), "n": sc.n.to_string(), "fee": sc.fee, "extra_lovelace": sc.extra_lovelace.to_string(), "deviations": sc.labels});
    // ---- path 1: staged pipeline, explicit fee ----
    o.evals += 1;
    let den = sem::denote(sc);
    let utxos = sem::utxos_for(sc);
    let run = execute_with(sc, src, lowered);
    let src = src.to_string();
    if let Ok(pat) = std::env::var("VERIF_C02_TRACE") {
        if sc.labels.iter().any(|l| l.contains(&pat)) {
            let kind = match &run {
                Run::Ok(..) => "ok".to_string(),
                Run::Panic(_) => "panic".to_string(),
                Run::Undecodable(_) => "undecodable".to_string(),
                Run::FrontRejected(e) => format!("front:{e}"),
                Run::PipelineErr(stage, e) => format!("err:{stage}:{}", crate::engine::first_line(e, 80)),
            };
            use std::io::Write;
            if let Ok(mut f) = std::fs::OpenOptions::new().create(true).append(true).open("/verif/target/c02.trace") {
                let _ = writeln!(f, "TRACE {:?} q={} n={} den={} run={kind}", sc.labels, sc.q, sc.n, match &den { Denotation::Tx(_) => "tx".to_string(), Denotation::MustFail(r) => format!("must-fail:{r}"), Denotation::Undefined(r) => format!("undef:{r}") });
            }
        }
    }
    match run {
        Run::Ok(rec, _) => judge_ok(sc, &den, &rec, &utxos, "pipeline", o, &detail(&src)),
        Run::Panic(_) => o.class("pipeline:panic(C14)"),
        Run::Undecodable(e) => o.violate(Violation::new("payload-undecodable|pipeline", e).with_detail(detail(&src))),
        _ => o.class(match den {
            Denotation::MustFail(_) => "pipeline:must-fail-and-failed",
            _ => "pipeline:error",
        }),
    }
    // ---- path 2: resolve_tx against a real store ----
    if sc.prog.inputs.len() > 1 || sc.prog.collateral.is_some() {
        // several blocks draw on one party's UTxOs: which block the resolver serves with which UTxO is its
        // own choice, so the reference cannot be evaluated on "the" assignment (C03 / C04 cover selection)
        // what can still be judged without knowing the assignment is the ledger's balance: whatever the emitted
        // transaction consumes (looked up in the store) plus what it mints equals what it produces plus the fee
        let Some(tx) = lowered.cloned() else { return };
        let all: Vec<Utxo> = utxos.values().flatten().cloned().collect();
        let store = MemStore::new(all.clone());
        let mut comp = compiler(&PP { network: sc.network, extra_fees: Some(0), ..PP::default() });
        o.evals += 1;
        match panics::catch(|| pollster::block_on(tx3_resolver::resolve_tx(AnyTir::V1Beta0(tx), &sem::args_for(sc), &mut comp, &store, 10))) {
            Ok(Ok(ctx)) => match txdecode::decode_tx(&ctx.payload) {
                Ok(rec) => {
                    let mut consumed = BTreeMap::new();
                    consumed.insert("any".to_string(), all);
                    match balance(&rec, &consumed) {
                        // the two open findings seen through the balance: a negative lovelace total wrapped modulo 2^64
                        // (the imbalance is a multiple of 2^64) and negative token totals that vanished from an output
                        // (more of a token produced than consumed); anything else is a new imbalance
                        Some(b)
                            if balance_net(&rec, &consumed)
                                .map(|net| net.iter().all(|((p, n), v)| if p.is_empty() && n.is_empty() { *v % (1i128 << 64) == 0 } else { *v < 0 }))
                                .unwrap_or(false) =>
                        {
                            let wrapped = balance_net(&rec, &consumed).map(|net| net.keys().any(|(p, n)| p.is_empty() && n.is_empty())).unwrap_or(false);
                            o.class(if wrapped { "resolve:several-blocks-wrapped-negative" } else { "resolve:several-blocks-negative-asset-vanished" });
                            o.violate(
                                Violation::new(
                                    if wrapped { "not-an-error|negative-lovelace-in-output|resolve" } else { "not-an-error|negative-asset-in-output|resolve" },
                                    format!("a negative total was emitted wrapped / dropped (several input blocks): {b}"),
                                )
                                .with_detail(detail(&src)),
                            );
                        }
                        Some(b) => {
                            o.class("resolve:several-blocks-unbalanced");
                            o.violate(Violation::new("unbalanced|resolve-several-blocks", b).with_detail(detail(&src)));
                        }
                        None => o.class("resolve:several-blocks-balanced"),
                    }
                }
                Err(e) => o.violate(Violation::new("payload-undecodable|resolve", e).with_detail(detail(&src))),
            },
            Ok(Err(_)) => o.class("resolve:several-blocks-error"),
            Err(_) => o.class("resolve:panic(C14)"),
        }
        return;
    }
    let Some(tx) = lowered.cloned() else { return };
    let all: Vec<Utxo> = utxos.values().flatten().cloned().collect();
    let store = MemStore::new(all);
    let mut comp = compiler(&PP { network: sc.network, extra_fees: Some(0), ..PP::default() });
    o.evals += 1;
    let res = panics::catch(|| pollster::block_on(tx3_resolver::resolve_tx(AnyTir::V1Beta0(tx), &sem::args_for(sc), &mut comp, &store, 10)));
    match res {
        Err(_) => o.class("resolve:panic(C14)"),
        Ok(Err(_)) => o.class("resolve:error"),
        Ok(Ok(ctx)) => match txdecode::decode_tx(&ctx.payload) {
            Err(e) => o.violate(Violation::new("payload-undecodable|resolve", e).with_detail(detail(&src))),
            Ok(rec) => {
                // the resolver chose the inputs and the fee: evaluate the reference on exactly those
                let mut chosen = BTreeMap::new();
                for (name, us) in &utxos {
                    let picked: Vec<Utxo> = us
                        .iter()
                        .filter(|u| {
                            let pool = if name == "collateral" { &rec.collateral } else { &rec.inputs };
                            pool.iter().any(|(t, i)| *t == u.r#ref.txid && *i == u.r#ref.index as u64)
                        })
                        .cloned()
                        .collect();
                    chosen.insert(name.clone(), picked);
                }
                let mut sc2 = sc.clone();
                sc2.fee = rec.fee;
                let den2 = sem::denote_with(&sc2, chosen.clone());
                judge_ok(&sc2, &den2, &rec, &chosen, "resolve", o, &detail(&src));
            }
        },
    }
}

/// Templates whose input blocks compete for the same UTxOs (a party's block and a block pinned by `ref` to one of
/// the party's UTxOs; two blocks of one party), spending `everything - fees`: whichever way selection goes, a
/// returned transaction must balance against the store - a UTxO counted for two blocks pays out twice.
fn run_overlap(variant: usize, o: &mut Outcome) {
    let first = ["gas", "zgas"][variant % 2]; // sorts before / after `locked`
    let pin_with_from = (variant / 2) % 2 == 1;
    let store_size = 1 + (variant / 4) % 3;
    let many = (variant / 12) % 2 == 1;
    let star = if many { "*" } else { "" };
    let src = format!(
        "party S;\nparty R;\ntx t(q: Int, pin: UtxoRef) {{\n    input{star} {first} {{\n        from: S,\n        min_amount: Ada(q),\n    }}\n    input locked {{\n{}        ref: pin,\n    }}\n    output {{\n        to: R,\n        amount: {first} + locked - fees,\n    }}\n}}\n",
        if pin_with_from { "        from: S,\n" } else { "" }
    );
    let Ok(Ok(mut txs)) = panics::catch(|| crate::common::pipeline::lower_source(&src)) else {
        o.class("overlap:template-not-lowerable");
        return;
    };
    let Some(tx) = txs.remove("t") else { return };
    let s_addr = crate::common::pipeline::base_address(1, 0);
    let all: Vec<Utxo> = (0..store_size)
        .map(|i| {
            crate::common::tirb::utxo(
                tx3_tir::model::core::UtxoRef { txid: vec![0x30 + i as u8; 32], index: i as u32 },
                &s_addr,
                tx3_tir::model::assets::CanonicalAssets::from_naked_amount(10_000_000 + i as i128),
            )
        })
        .collect();
    let mut args = tx3_tir::reduce::ArgMap::new();
    args.insert("s".into(), tx3_tir::reduce::ArgValue::Address(s_addr));
    args.insert("r".into(), tx3_tir::reduce::ArgValue::Address(crate::common::pipeline::base_address(2, 0)));
    args.insert("q".into(), tx3_tir::reduce::ArgValue::Int(4_000_000));
    args.insert("pin".into(), tx3_tir::reduce::ArgValue::UtxoRef(all[0].r#ref.clone()));
    let store = MemStore::new(all.clone());
    let mut comp = compiler(&PP { extra_fees: Some(0), ..PP::default() });
    o.evals += 1;
    let detail = json!({"source": src, "store": all.iter().map(|u| format!("{}#{}", hex::encode(&u.r#ref.txid[..2]), u.r#ref.index)).collect::<Vec<_>>(), "pin": "first UTxO of the store"});
    match panics::catch(|| pollster::block_on(tx3_resolver::resolve_tx(AnyTir::V1Beta0(tx), &args, &mut comp, &store, 10))) {
        Ok(Ok(ctx)) => match txdecode::decode_tx(&ctx.payload) {
            Ok(rec) => {
                let mut consumed = BTreeMap::new();
                consumed.insert("any".to_string(), all);
                match balance(&rec, &consumed) {
                    Some(b) => {
                        o.class("overlap:unbalanced");
                        o.violate(Violation::new("unbalanced|resolve-overlapping-blocks", b).with_detail(detail));
                    }
                    None => o.class("overlap:balanced"),
                }
            }
            Err(e) => o.violate(Violation::new("payload-undecodable|resolve", e).with_detail(detail)),
        },
        Ok(Err(_)) => o.class("overlap:refused"),
        Err(_) => o.class("resolve:panic(C14)"),
    }
    o.key(hash64(&("overlap", variant)));
}

fn run_number_from_assets(o: &mut Outcome) {
    use crate::common::tirb;
    use crate::gen::tirgen;
    use tx3_tir::compile::Compiler as _;
    use tx3_tir::model::v1beta0 as tir;
    let tok = |p: u8, n: i128| tirb::token(&[p; 28], b"T", n);
    let lists: Vec<(&str, Vec<tir::AssetExpr>)> = vec![
        ("lovelace+token", vec![tirb::lovelace(10), tok(0x51, 4)]),
        ("token+lovelace", vec![tok(0x51, 4), tirb::lovelace(10)]),
        ("two-tokens", vec![tok(0x51, 4), tok(0x52, 7)]),
        ("three-classes", vec![tirb::lovelace(10), tok(0x51, 4), tok(0x52, 7)]),
    ];
    let mut subjects: Vec<(String, Box<dyn Fn(tir::Expression) -> tir::Tx>)> = vec![];
    for (i, name) in tirgen::PLACEMENTS.iter().enumerate() {
        if matches!(*name, "fees" | "validity.since" | "validity.until" | "metadata[0].key") {
            subjects.push((name.to_string(), Box::new(move |e| tirgen::place(i, e))));
        }
    }
    for (dname, key, others) in [
        ("withdrawal", "amount", vec![("credential", tir::Expression::Address(crate::common::pipeline::stake_address(6, 0)))]),
        ("treasury_donation", "coin", vec![]),
    ] {
        subjects.push((
            format!("{dname}.{key}"),
            Box::new(move |e| {
                let mut tx = tirgen::place(0, tirb::assets(vec![tirb::lovelace(200_000)]));
                let mut data: std::collections::HashMap<String, tir::Expression> = others.iter().cloned().map(|(k, v)| (k.to_string(), v)).collect();
                data.insert(key.to_string(), e);
                tx.adhoc.push(tir::AdHocDirective { name: dname.to_string(), data });
                tx
            }),
        ));
    }
    for (at, build) in &subjects {
        // the same field with one class compiles (so a refusal below is about the value, not the field)
        let single = build(tirb::assets(vec![tirb::lovelace(10)]));
        let mut comp = compiler(&PP::default());
        let control = panics::catch(|| comp.compile(&AnyTir::V1Beta0(single))).map(|r| r.is_ok()).unwrap_or(false);
        for (lname, list) in &lists {
            o.evals += 1;
            let tx = build(tirb::assets(list.clone()));
            let mut comp = compiler(&PP::default());
            match panics::catch(|| comp.compile(&AnyTir::V1Beta0(tx))) {
                Err(_) => o.class("number-from-assets:panic(C14)"),
                Ok(Err(_)) => o.class("number-from-assets:refused"),
                Ok(Ok(c)) => {
                    o.class("number-from-assets:compiled");
                    let what = txdecode::decode_tx(&c.payload).map(|r| format!("fee {} ttl {:?} start {:?} withdrawals {:?} donation {:?}", r.fee, r.ttl, r.validity_start, r.withdrawals.iter().map(|w| w.1).collect::<Vec<_>>(), r.donation)).unwrap_or_default();
                    o.violate(Violation::new(
                        format!("not-an-error|several-asset-classes-read-as-one-number|{at}"),
                        format!("{at} holds {lname} (single class compiles: {control}), yet a transaction came out: {what}"),
                    ));
                }
            }
            o.key(hash64(&(at, lname)));
        }
    }
}

impl Prop for C02 {
    fn id(&self) -> &'static str {
        "C02"
    }
    fn rule(&self, tier: Tier) -> String {
        format!(
            "every program of the typed generator with <= {} deviation(s) (all balanced by construction: change = inputs + mint - burn - payments - fees) \
             x every value of the boundary alphabet ({} integers: 0, +-1, +-2, 23, 24, 255, 256, +-(2^31 +- 1), +-(2^63 +- 1), +-(2^64 +- 1), i128 extremes) as the \
             integer argument (which flows into output lovelace, token amounts, mint amounts, validity slots, metadata and datum integers, thresholds) x 5 \
             holdings of the main input (ordinary, +2^62, up to 2^63-1, up to 2^64-1, one lovelace) - through the staged pipeline with an explicit fee and \
             through resolve_tx with a real store (programs with several input blocks: the ledger balance of whatever is returned); 24 templates whose blocks compete for one UTxO (party block x block pinned by ref, name orders, store sizes 1..3). Oracle: exact reference evaluation; Ok => every numeric field equals it and consumed + mint = produced + \
             fee per asset class; a value that does not fit its field (negative coin / asset, zero mint, slot outside [0,2^64), metadata integer or label \
             out of range, amounts beyond 64 bits, overflow of 128-bit arithmetic, list index out of range) => the call must be Err. Non-trivial = a \
             transaction was produced and judged, or the reference demanded failure; distinct = (scenario, argument, holding).",
            k_for(tier),
            boundary_ints().len()
        )
    }
    fn assumptions(&self) -> Vec<String> {
        vec![
            "the harness is built with overflow checks off (the published configuration), so a wrapping addition shows up as a wrong or unexpected result, not as a panic".into(),
            "one integer argument is varied at a time; other arguments keep comfortable values".into(),
        ]
    }
    fn bound(&self, tier: Tier) -> String {
        format!("{} deviation(s) x full boundary alphabet x 5 holdings", k_for(tier))
    }
    fn case_identity(&self, case: &Value) -> String {
        format!("{}|{}|{}", case["choices"], case["q"], case["extra"])
    }
    fn enumerate(&self, tier: Tier, sink: &mut Sink) {
        for variant in 0..24usize {
            sink.case(|| json!({"kind": "overlap", "choices": ["overlap", variant], "variant": variant, "q": "-", "extra": "-"}));
        }
        // a value of several asset classes in a field that holds one number (fee, validity bounds, metadata label,
        // withdrawal amount, donation): no single number stands for it
        sink.case(|| json!({"kind": "number-from-assets", "choices": ["number-from-assets"], "q": "-", "extra": "-"}));
        let mut gen = |c: &mut Chooser| prog::generate(c);
        let qs = boundary_ints();
        dbx::explore(k_for(tier), &mut gen, &mut |choices, _d, sc| {
            // layouts and spellings do not change quantities: skip them here (C01 covers them)
            if sc.labels.iter().any(|l| l.starts_with("layout=") || l.starts_with("party-spelling=") || l.starts_with("block-order=") || l.starts_with("q=")) {
                return;
            }
            for (ei, extra) in extras().iter().enumerate() {
                if ei > 0 && !sc.labels.is_empty() && !tier.is_thorough() {
                    continue; // unusual holdings with the default program only (quick)
                }
                sink.case(|| json!({"kind": "boundary-sweep", "choices": choices, "labels": sc.labels, "extra": extra.to_string(), "q": "all"}));
            }
        });
        let _ = qs;
    }
    fn run(&self, case: &Value) -> Outcome {
        let mut o = Outcome::default();
        if case["kind"] == "overlap" {
            run_overlap(case["variant"].as_u64().unwrap_or(0) as usize, &mut o);
            return o;
        }
        if case["kind"] == "number-from-assets" {
            run_number_from_assets(&mut o);
            return o;
        }
        let choices: Vec<usize> = case["choices"].as_array().map(|a| a.iter().filter_map(|x| x.as_u64().map(|x| x as usize)).collect()).unwrap_or_default();
        let mut c = Chooser::new(choices.clone());
        let base = prog::generate(&mut c);
        if c.diverged {
            panic!("harness: choice sequence does not fit the generator");
        }
        let extra: i128 = case["extra"].as_str().and_then(|s| s.parse().ok()).unwrap_or(0);
        let uses_n = base.prog.params.iter().any(|(n, _)| n == "n");
        // the source does not depend on the argument values: run the front end once
        let src = prog::render(&base.prog, base.layout);
        let lowered = match panics::catch(|| lower_source(&src)) {
            Ok(Ok(mut t)) => t.remove("t"),
            _ => None,
        };
        if lowered.is_none() {
            o.class("front-rejected(C01)");
            return o;
        }
        for v in boundary_ints() {
            let mut sc = base.clone();
            // programs that declare `n` route the boundary value into one specific sink; the others get it as q
            if uses_n {
                sc.n = v;
            } else {
                sc.q = v;
            }
            sc.extra_lovelace = extra;
            run_scenario(&sc, &src, lowered.as_ref(), &mut o);
            o.key(hash64(&(case["choices"].to_string(), v, extra)));
        }
        o
    }
}
