//! C20 — resolution does not depend on what the compiler instance compiled before.
//!
//! Explicit-state search over a real `tx3_cardano::Compiler`: a state is reached by replaying a history of
//! resolutions (alphabet of 9 actions: 0..5 outputs, with / without min_utxo of the first / last output,
//! three failing ones) on a fresh, identically configured instance; states are identified by the bytes of
//! `latest_tx_body` (the instance's only mutable field - checked at every transition). In every state every
//! action is resolved on a replica and compared with the outcome on a fresh instance.

use crate::common::pipeline::{base_address, compiler, lower_source, PP};
use crate::common::store::MemStore;
use crate::common::tirb;
use crate::engine::{hash64, panics, Outcome, Prop, Sink, Tier, Violation};
use serde_json::{json, Value};
use std::collections::{BTreeMap, HashSet, VecDeque};
use tx3_cardano::Compiler;
use tx3_tir::encoding::AnyTir;
use tx3_tir::model::assets::CanonicalAssets;
use tx3_tir::model::core::{Utxo, UtxoRef};
use tx3_tir::model::v1beta0 as tir;
use tx3_tir::reduce::{ArgMap, ArgValue};

pub struct C20;

pub struct Action {
    pub name: &'static str,
    pub tx: tir::Tx,
    pub args: ArgMap,
    /// true: the (constant) template is handed straight to Compiler::compile instead of resolve_tx
    pub direct: bool,
    /// resolved against this store instead of the model's (what an address holds changes between resolutions)
    pub own_store: Option<Vec<Utxo>>,
}

fn outputs_src(n: usize, min_utxo_of: Option<usize>) -> String {
    // n outputs: outputs 0..n-2 pay a fixed amount to R (output 0 pays min_utxo(o<m>) when asked), the last
    // one returns the change to S
    let paid = |k: usize| match (k, min_utxo_of) {
        (0, Some(m)) => format!("min_utxo(o{m})"),
        _ => format!("Ada({})", 1_000_000 + k),
    };
    let mut s = String::from("party S;\nparty R;\ntx t(q: Int) {\n    input src {\n        from: S,\n        min_amount: fees + Ada(q),\n    }\n");
    for k in 0..n {
        let (to, amount) = if k + 1 == n {
            let spent: String = (0..n - 1).map(|j| format!(" - {}", paid(j))).collect();
            ("S", format!("src - fees{spent}"))
        } else {
            ("R", paid(k))
        };
        s.push_str(&format!("    output o{k} {{\n        to: {to},\n        amount: {amount},\n    }}\n"));
    }
    s.push_str("}\n");
    s
}

pub fn actions() -> Vec<Action> {
    let lower = |src: &str| lower_source(src).expect("action template lowers").remove("t").expect("tx t");
    let mut args: ArgMap = BTreeMap::new();
    args.insert("s".into(), ArgValue::Address(base_address(1, 0)));
    args.insert("r".into(), ArgValue::Address(base_address(2, 0)));
    args.insert("q".into(), ArgValue::Int(2_000_000));
    let mut v = vec![];
    let mut zero = tirb::empty_tx();
    zero.inputs.push(tirb::input(
        "src",
        tir::InputQuery {
            address: tir::Expression::Address(base_address(1, 0)),
            min_amount: tirb::assets(vec![tirb::lovelace(1)]),
            r#ref: tir::Expression::None,
            many: false,
            collateral: false,
        },
    ));
    v.push(Action { name: "0-outputs", tx: zero, args: ArgMap::new(), direct: false, own_store: None });
    v.push(Action { name: "1-output", tx: lower(&outputs_src(1, None)), args: args.clone(), direct: false, own_store: None });
    v.push(Action { name: "2-outputs", tx: lower(&outputs_src(2, None)), args: args.clone(), direct: false, own_store: None });
    v.push(Action { name: "5-outputs", tx: lower(&outputs_src(5, None)), args: args.clone(), direct: false, own_store: None });
    v.push(Action { name: "2-outputs-min_utxo(first)", tx: lower(&outputs_src(2, Some(0))), args: args.clone(), direct: false, own_store: None });
    v.push(Action { name: "3-outputs-min_utxo(last)", tx: lower(&outputs_src(3, Some(2))), args: args.clone(), direct: false, own_store: None });
    // fails in reduce: a number minus bytes
    let mut bad = lower(&outputs_src(2, None));
    bad.outputs[0].amount = tirb::builtin(tir::BuiltInOp::Sub(tir::Expression::Number(1), tir::Expression::Bytes(vec![1])));
    v.push(Action { name: "fails-in-reduce", tx: bad, args: args.clone(), direct: false, own_store: None });
    // fails with InputNotResolved: asks for more than the store holds
    let mut poor = args.clone();
    poor.insert("q".into(), ArgValue::Int(900_000_000_000));
    v.push(Action { name: "fails-input-not-resolved", tx: lower(&outputs_src(2, None)), args: poor, direct: false, own_store: None });
    // fails in compile: receiver address of 5 bytes
    let mut badaddr = args.clone();
    badaddr.insert("r".into(), ArgValue::Address(vec![1, 2, 3, 4, 5]));
    v.push(Action { name: "fails-in-compile", tx: lower(&outputs_src(2, None)), args: badaddr, direct: false, own_store: None });
    // a transaction whose first output carries a 1000-byte inline datum: as history it leaves a body whose
    // output 0 is far larger than anything the other templates produce
    let big = "party S;\nparty R;\ntx t(q: Int, blob: Bytes) {\n    input src {\n        from: S,\n        min_amount: fees + Ada(q),\n    }\n    output o0 {\n        to: R,\n        amount: Ada(q),\n        datum: blob,\n    }\n    output o1 {\n        to: S,\n        amount: src - fees - Ada(q),\n    }\n}\n";
    let mut big_args = args.clone();
    big_args.insert("blob".into(), ArgValue::Bytes(vec![0x42; 1000]));
    v.push(Action { name: "2-outputs-1000-byte-datum", tx: lower(big), args: big_args, direct: false, own_store: None });
    // min_utxo inside the input threshold: the first-round estimate decides whether the input resolves at all
    let thr = "party S;\nparty R;\ntx t(q: Int) {\n    input src {\n        from: S,\n        min_amount: fees + min_utxo(small) + min_utxo(change),\n    }\n    output small {\n        to: R,\n        amount: min_utxo(small),\n    }\n    output change {\n        to: S,\n        amount: src - fees - min_utxo(small),\n    }\n}\n";
    v.push(Action { name: "min_utxo-in-threshold", tx: lower(thr), args: args.clone(), direct: false, own_store: None });
    // templates that reach the resolver with nothing (left) to bind: arguments applied upstream and an empty argument
    // map, and the same with the inputs applied too (no query left) - every shortcut "nothing to do for this stage"
    // in the resolver is taken by one of them
    let pre = |tx: &tir::Tx, a: &ArgMap| -> tir::Tx {
        let applied = tx3_tir::reduce::apply_args(tx.clone(), a).expect("arguments apply");
        tx3_tir::reduce::reduce(applied).expect("reduces")
    };
    v.push(Action { name: "args-preapplied-3-outputs-min_utxo(last)", tx: pre(&lower(&outputs_src(3, Some(2))), &args), args: ArgMap::new(), direct: false, own_store: None });
    v.push(Action { name: "args-preapplied-min_utxo-in-threshold", tx: pre(&lower(thr), &args), args: ArgMap::new(), direct: false, own_store: None });
    v.push(Action { name: "args-preapplied-2-outputs", tx: pre(&lower(&outputs_src(2, None)), &args), args: ArgMap::new(), direct: false, own_store: None });
    {
        // no query left either: the input is bound to a fixed UTxO of 9 ADA that no store holds
        let t = pre(&lower(&outputs_src(3, Some(2))), &args);
        let own = tirb::utxo(UtxoRef { txid: vec![0x77; 32], index: 1 }, &base_address(1, 0), CanonicalAssets::from_naked_amount(9_000_000));
        let mut m = BTreeMap::new();
        m.insert("src".to_string(), HashSet::from([own]));
        let t = tx3_tir::reduce::apply_inputs(t, &m).expect("inputs apply");
        v.push(Action { name: "args-and-inputs-preapplied-3-outputs-min_utxo(last)", tx: t, args: ArgMap::new(), direct: false, own_store: None });
    }
    // the same address held something else when an earlier resolution looked (and failed / succeeded) there
    let mut poor2 = args.clone();
    poor2.insert("q".into(), ArgValue::Int(900_000_000_000));
    v.push(Action { name: "fails-input-not-resolved@other-store", tx: lower(&outputs_src(2, None)), args: poor2, direct: false, own_store: Some(store(3)) });
    v.push(Action { name: "2-outputs@other-store", tx: lower(&outputs_src(2, None)), args: args.clone(), direct: false, own_store: Some(store(3)) });
    // a store that holds a sibling output (same transaction, other index, other value) of the default store's UTxO
    v.push(Action { name: "2-outputs@sibling-output-store", tx: lower(&outputs_src(2, None)), args: args.clone(), direct: false, own_store: Some(store(5)) });
    // a wallet whose two UTxOs differ in make-up: a large payment can only take one of them, a small one takes the other
    let mut large = args.clone();
    large.insert("q".into(), ArgValue::Int(50_000_000));
    v.push(Action { name: "2-outputs-large@mixed-wallet", tx: lower(&outputs_src(2, None)), args: large, direct: false, own_store: Some(store(6)) });
    v.push(Action { name: "2-outputs@mixed-wallet", tx: lower(&outputs_src(2, None)), args: args.clone(), direct: false, own_store: Some(store(6)) });
    // scripts of each Plutus version with a redeemer: the script data hash is made from the language's cost model
    for version in 1..=3u8 {
        let src = format!(
            "party S;\nparty R;\ntx t(q: Int) {{\n    input src {{\n        from: S,\n        min_amount: fees + Ada(q),\n    }}\n    mint {{\n        amount: AnyAsset(0x{}, \"T\", 1),\n        redeemer: (),\n    }}\n    output o0 {{\n        to: S,\n        amount: src - fees + AnyAsset(0x{}, \"T\", 1),\n    }}\n    cardano::plutus_witness {{\n        version: {version},\n        script: 0x4E4D0100003322222005120012001{version},\n    }}\n}}\n",
            "c1".repeat(28),
            "c1".repeat(28)
        );
        let name: &'static str = ["mint-guarded-by-plutus-v1", "mint-guarded-by-plutus-v2", "mint-guarded-by-plutus-v3"][version as usize - 1];
        v.push(Action { name, tx: lower(&src), args: args.clone(), direct: false, own_store: None });
    }
    // two guarded policies in one transaction, one of them the policy the single guarded mints use: where a policy
    // stands among the minted ones is a fact about one transaction
    {
        let src = format!(
            "party S;\nparty R;\ntx t(q: Int) {{\n    input src {{\n        from: S,\n        min_amount: fees + Ada(q),\n    }}\n    mint {{\n        amount: AnyAsset(0x{lo}, \"L\", 1),\n        redeemer: 7,\n    }}\n    mint {{\n        amount: AnyAsset(0x{hi}, \"T\", 1),\n        redeemer: (),\n    }}\n    output o0 {{\n        to: S,\n        amount: src - fees + AnyAsset(0x{lo}, \"L\", 1) + AnyAsset(0x{hi}, \"T\", 1),\n    }}\n    cardano::plutus_witness {{\n        version: 3,\n        script: 0x4E4D01000033222220051200120013,\n    }}\n}}\n",
            lo = "10".repeat(28),
            hi = "c1".repeat(28)
        );
        v.push(Action { name: "mint-two-guarded-policies", tx: lower(&src), args: args.clone(), direct: false, own_store: None });
    }
    // one template, two witness scripts of one length: the bodies are byte-identical, the witness sets are not
    {
        let src = format!(
            "party S;\nparty R;\ntx t(q: Int, script: Bytes) {{\n    input src {{\n        from: S,\n        min_amount: fees + Ada(q),\n    }}\n    mint {{\n        amount: AnyAsset(0x{}, \"T\", 1),\n    }}\n    output o0 {{\n        to: S,\n        amount: src - fees + AnyAsset(0x{}, \"T\", 1),\n    }}\n    cardano::native_witness {{\n        script: script,\n    }}\n}}\n",
            "c2".repeat(28),
            "c2".repeat(28)
        );
        for (name, script) in [("mint-with-native-script-A", vec![0x82u8, 0x01, 0x81, 0x82, 0x04, 0x00]), ("mint-with-native-script-B", vec![0x82, 0x01, 0x81, 0x82, 0x04, 0x01])] {
            let mut a = args.clone();
            a.insert("script".into(), ArgValue::Bytes(script));
            v.push(Action { name, tx: lower(&src), args: a, direct: false, own_store: None });
        }
    }
    // the instance may also have been used to compile constant templates directly
    let constant = crate::gen::tirgen::place(5, tir::Expression::None);
    let mut no_outputs = constant.clone();
    no_outputs.outputs.clear();
    v.push(Action { name: "direct-compile-2-outputs", tx: constant, args: ArgMap::new(), direct: true, own_store: None });
    v.push(Action { name: "direct-compile-0-outputs", tx: no_outputs, args: ArgMap::new(), direct: true, own_store: None });
    v
}

fn store(which: usize) -> Vec<Utxo> {
    let a = base_address(1, 0);
    match which {
        0 => vec![tirb::utxo(UtxoRef { txid: vec![0x11; 32], index: 0 }, &a, CanonicalAssets::from_naked_amount(80_000_000))],
        1 => vec![
            tirb::utxo(UtxoRef { txid: vec![0x12; 32], index: 3 }, &a, CanonicalAssets::from_naked_amount(500_000_000_000)),
        ],
        // what the same address held at another time
        3 => vec![tirb::utxo(UtxoRef { txid: vec![0x14; 32], index: 7 }, &a, CanonicalAssets::from_naked_amount(70_000_000))],
        // another output of the transaction that made store 0's UTxO, holding something else
        5 => vec![tirb::utxo(UtxoRef { txid: vec![0x11; 32], index: 1 }, &a, CanonicalAssets::from_naked_amount(50_000_000))],
        // a wallet of mixed make-up: which UTxO a query takes depends on the target, and must depend on nothing else
        6 => vec![
            tirb::utxo(UtxoRef { txid: vec![0x15; 32], index: 0 }, &a, CanonicalAssets::from_naked_amount(5_000_000) + CanonicalAssets::from_defined_asset(&[0x44; 28], b"T", 1000)),
            tirb::utxo(UtxoRef { txid: vec![0x16; 32], index: 1 }, &a, CanonicalAssets::from_naked_amount(100_000_000)),
        ],
        // tight funds: enough for every template sized from its own body, not for one sized from a fat foreign body
        _ => vec![tirb::utxo(UtxoRef { txid: vec![0x13; 32], index: 0 }, &a, CanonicalAssets::from_naked_amount(3_000_000))],
    }
}

fn pp(which: usize) -> PP {
    match which {
        0 => PP { extra_fees: None, ..PP::default() },
        1 => PP { coefficient: 1, constant: 2, coins_per_utxo_byte: 1, extra_fees: Some(0), ..PP::default() },
        // min_utxo of a small output straddles a CBOR integer width boundary: the fee map has two fixed points
        _ => PP { extra_fees: None, coins_per_utxo_byte: 331, ..PP::default() },
    }
}

#[derive(Debug, Clone, PartialEq, Eq)]
pub enum Out {
    Ok { payload: Vec<u8>, hash: Vec<u8>, fee: u64 },
    Err(String),
    Panic(String),
}

impl Out {
    fn kind(&self) -> String {
        match self {
            Out::Ok { .. } => "ok".into(),
            Out::Err(e) => format!("err:{e}"),
            Out::Panic(_) => "panic".into(),
        }
    }
}

fn body_bytes(c: &Compiler) -> Vec<u8> {
    match &c.latest_tx_body {
        None => vec![],
        Some(b) => {
            // the body was built in memory, so KeepRaw holds no original bytes: encode the value itself
            let mut v = vec![1];
            let inner: &tx3_cardano::pallas::ledger::primitives::conway::TransactionBody = b;
            v.extend(tx3_cardano::pallas::codec::minicbor::to_vec(inner).expect("body encodes"));
            v
        }
    }
}

fn config_fingerprint(c: &Compiler) -> u64 {
    let mut models: Vec<_> = c.pparams.cost_models.iter().collect();
    models.sort();
    hash64(&(
        c.pparams.min_fee_coefficient,
        c.pparams.min_fee_constant,
        c.pparams.coins_per_utxo_byte,
        models,
        c.config.extra_fees,
        c.cursor.slot,
        c.cursor.timestamp,
        &c.cursor.hash,
    ))
}

fn resolve(c: &mut Compiler, a: &Action, utxos: &[Utxo]) -> Out {
    if a.direct {
        use tx3_tir::compile::Compiler as _;
        return match panics::catch(|| c.compile(&AnyTir::V1Beta0(a.tx.clone()))) {
            Ok(Ok(t)) => Out::Ok { payload: t.payload, hash: t.hash, fee: t.fee },
            Ok(Err(e)) => Out::Err(format!("compile:{}", crate::engine::first_line(&e.to_string(), 30))),
            Err(p) => Out::Panic(p.signature()),
        };
    }
    let st = MemStore::new(match &a.own_store {
        Some(own) => own.clone(),
        None => utxos.to_vec(),
    });
    match panics::catch(|| pollster::block_on(tx3_resolver::resolve_tx(AnyTir::V1Beta0(a.tx.clone()), &a.args, c, &st, 10))) {
        Ok(Ok(t)) => Out::Ok { payload: t.payload, hash: t.hash, fee: t.fee },
        Ok(Err(e)) => Out::Err(super::c03::err_kind(&e)),
        Err(p) => Out::Panic(p.signature()),
    }
}

/// runs `f` on a thread of its own: state kept per thread (a `thread_local!` cache) then belongs to that one
/// evaluation - it can leak from a history into its target, which is the question, but not from one evaluation into
/// the next, nor into the fresh reference
fn on_own_thread<T: Send>(f: impl FnOnce() -> T + Send) -> T {
    std::thread::scope(|s| s.spawn(f).join().expect("evaluation thread"))
}

fn replay(history: &[usize], acts: &[Action], utxos: &[Utxo], pp: &PP) -> Compiler {
    let mut c = compiler(pp);
    for h in history {
        let _ = resolve(&mut c, &acts[*h], utxos);
    }
    c
}

/// `first`: None = the whole model in one case; Some(None) = the empty history alone; Some(Some(k)) = the histories that
/// begin with action k (the thorough tier splits a model this way: a case stays within the per-case CPU cap and the
/// sub-models run side by side; states are merged within a sub-model only, which is finer, never coarser)
fn run_model(store_ix: usize, pp_ix: usize, depth: usize, first: Option<Option<usize>>) -> Outcome {
    let mut o = Outcome::default();
    let mut acts = actions();
    let utxos = store(store_ix);
    let pp = pp(pp_ix);
    // a wallet that covers the two-output payment and its own fee with 100 lovelace to spare: a resolution that starts
    // from anything but a clean slate (a fee remembered from a costlier transaction) does not find it sufficient
    {
        let two = acts.iter().position(|a| a.name == "2-outputs").expect("action");
        if let Out::Ok { fee, .. } = on_own_thread(|| resolve(&mut compiler(&pp), &acts[two], &store(1))) {
            let wallet = vec![tirb::utxo(UtxoRef { txid: vec![0x15; 32], index: 2 }, &base_address(1, 0), CanonicalAssets::from_naked_amount(2_000_000 + fee as i128 + 100))];
            let a = Action { name: "2-outputs@wallet-that-just-covers-it", tx: acts[two].tx.clone(), args: acts[two].args.clone(), direct: false, own_store: Some(wallet) };
            acts.push(a);
        }
    }
    // fresh outcomes (must be reproducible, otherwise the target is excluded: that would be C10's matter)
    let mut fresh: Vec<Option<Out>> = vec![];
    for a in &acts {
        let runs: Vec<Out> = (0..3).map(|_| on_own_thread(|| resolve(&mut compiler(&pp), a, &utxos))).collect();
        o.evals += 3;
        if runs.iter().all(|r| *r == runs[0]) {
            o.class(format!("fresh:{}:{}", a.name, runs[0].kind()));
            fresh.push(Some(runs[0].clone()));
        } else {
            o.class("fresh-outcome-not-reproducible");
            fresh.push(None);
        }
    }
    let unmerged = if depth >= 4 { 2 } else { 1 };
    let cfg0 = config_fingerprint(&compiler(&pp));
    // breadth-first search over histories, states identified by latest_tx_body
    let mut seen: HashSet<Vec<u8>> = HashSet::new();
    let mut frontier: VecDeque<Vec<usize>> = VecDeque::new();
    seen.insert(vec![]);
    match first {
        Some(Some(k)) if k < acts.len() => frontier.push_back(vec![k]),
        Some(Some(_)) => {}
        _ => frontier.push_back(vec![]),
    }
    let depth = if first == Some(None) { 0 } else { depth };
    let mut states = 0u64;
    let mut transitions = 0u64;
    let mut max_depth = 0u64;
    let mut compared = 0u64;
    while let Some(hist) = frontier.pop_front() {
        states += 1;
        max_depth = max_depth.max(hist.len() as u64);
        // the property, in this state, for every target
        for (t, a) in acts.iter().enumerate() {
            let Some(expect) = &fresh[t] else { continue };
            let (got, replica_cfg, replica_body) = on_own_thread(|| {
                let mut replica = replay(&hist, &acts, &utxos, &pp);
                let got = resolve(&mut replica, a, &utxos);
                (got, config_fingerprint(&replica), body_bytes(&replica))
            });
            transitions += 1;
            compared += 1;
            o.evals += 1;
            if replica_cfg != cfg0 {
                o.violate(Violation::new("machinery|compiler-config-mutated", "a field other than latest_tx_body changed during resolution"));
            }
            if got != *expect {
                let names: Vec<&str> = hist.iter().map(|h| acts[*h].name).collect();
                let kind = match (expect, &got) {
                    (Out::Ok { .. }, Out::Ok { .. }) => "different-transaction".to_string(),
                    (e, g) => format!("{}-vs-{}", e.kind().split(':').next().unwrap(), g.kind().split(':').next().unwrap()),
                };
                let uses_min_utxo = a.name.contains("min_utxo");
                o.violate(
                    Violation::new(
                        format!("history-dependent|{kind}|{}", if uses_min_utxo { "target-uses-min_utxo" } else { "target-without-min_utxo" }),
                        format!("after {names:?}, resolving `{}` gives {} but a fresh compiler gives {}", a.name, got.kind(), expect.kind()),
                    )
                    .with_detail(json!({"history": names, "target": a.name, "store": store_ix, "pparams": pp_ix})),
                );
            }
            // successor state
            if hist.len() < depth {
                // histories of one resolution (thorough: up to two) are all kept apart: what a resolution leaves behind need not be in
                // the instance (a cache per thread or per process), and a failed one leaves the instance as it was.
                // Longer ones are merged on the instance's state.
                let key = replica_body;
                let fresh_key = seen.insert(key);
                if hist.len() < unmerged || fresh_key {
                    let mut h2 = hist.clone();
                    h2.push(t);
                    frontier.push_back(h2);
                }
            }
        }
    }
    o.count("states", states);
    o.count("transitions", transitions);
    o.count("traces_validated_against_impl", transitions);
    o.count("targets_compared", compared);
    o.max("max_depth", max_depth);
    o.key(hash64(&("model", store_ix, pp_ix, depth, first)));
    o.key(hash64(&("model-states", store_ix, pp_ix, states)));
    o
}

impl Prop for C20 {
    fn id(&self) -> &'static str {
        "C20"
    }
    fn level(&self) -> &'static str {
        "model_checking"
    }
    fn rule(&self, tier: Tier) -> String {
        format!(
            "explicit-state breadth-first search whose transition function is the implementation: state = history of resolutions replayed on a fresh \
             tx3_cardano::Compiler, state key = bytes of Compiler.latest_tx_body (the other fields are asserted unchanged at every transition); alphabet of \
             26 actions (24 resolutions (templates with 0, 1, 2, 5 outputs, min_utxo of the first / last output, one failing in reduce, one with InputNotResolved, one \
             failing in compile, a 1000-byte datum, min_utxo in a threshold, four templates whose arguments (and inputs) were applied upstream and that arrive with an empty argument map, two that look at the same address when it holds another UTxO, a guarded mint under each Plutus version, a mint under two guarded policies, one mint template with two native scripts of one length (identical bodies, different witness sets), a payment from a wallet that covers it with 100 lovelace to spare); 2 direct Compiler::compile calls on constant templates); depth {} ; 3 stores (ample, huge, tight) x 3 protocol-parameter sets (separate models). In every state every action is resolved on a replica \
             and its outcome (payload, hash, fee | error kind | panic) compared with the outcome on a fresh instance (itself reproduced 3 times). Each evaluation (history + target) runs on a thread of its own, so per-thread state leaks from a history into its target only. Every \
             transition executes the real resolve_tx, so model and implementation cannot diverge.",
            if tier.is_thorough() { 4 } else { 3 }
        )
    }
    fn assumptions(&self) -> Vec<String> {
        vec![
            "histories longer than two resolutions are merged when latest_tx_body is byte-identical: the struct has no other mutable field (checked); all histories of length 1 (thorough: <= 2) are explored unmerged, so state kept outside the instance shows when one (two) resolutions suffice to set it up".into(),
            "every query of the alphabet has a unique admissible UTxO, so selection tie-breaks cannot differ between runs".into(),
        ]
    }
    fn bound(&self, tier: Tier) -> String {
        format!("histories of length <= {}", if tier.is_thorough() { 4 } else { 3 })
    }
    fn enumerate(&self, tier: Tier, sink: &mut Sink) {
        let depth = if tier.is_thorough() { 4 } else { 3 };
        // (one more than the static alphabet: the wallet sized from a fee is added per model)
        let n_actions = actions().len();
        for s in 0..3 {
            for p in 0..3 {
                if tier.is_thorough() {
                    sink.case(|| json!({"kind": "model", "store": s, "pparams": p, "depth": depth, "first": "root"}));
                    for k in 0..=n_actions {
                        sink.case(|| json!({"kind": "model", "store": s, "pparams": p, "depth": depth, "first": k}));
                    }
                } else {
                    sink.case(|| json!({"kind": "model", "store": s, "pparams": p, "depth": depth}));
                }
            }
        }
    }
    fn run(&self, case: &Value) -> Outcome {
        run_model(
            case["store"].as_u64().unwrap_or(0) as usize,
            case["pparams"].as_u64().unwrap_or(0) as usize,
            case["depth"].as_u64().unwrap_or(3) as usize,
            match &case["first"] {
                Value::Null => None,
                Value::String(_) => Some(None),
                v => Some(v.as_u64().map(|k| k as usize)),
            },
        )
    }
}
