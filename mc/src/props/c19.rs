//! C19 — diagnostics point inside the text they are attached to.
//!
//! Erroneous inputs: the whole C12 enumeration (grammar derivations, token mutants, nesting) plus a
//! positional sweep: an offending token injected at every token boundary of multi-line bases that carry
//! CRLF, tabs and multi-byte characters in comments and strings before the error.

use super::c12;
use crate::engine::{hash64, panics, Outcome, Prop, Sink, Tier, Violation};
use crate::gen::tokens;
use serde_json::{json, Value};

pub struct C19;

fn bases() -> Vec<(String, String)> {
    let mut out = vec![];
    for name in ["transfer", "input_datum", "burn", "vesting", "env_vars", "list_indexing"] {
        let Ok(src) = std::fs::read_to_string(format!("/repo/examples/{name}.tx3")) else { continue };
        // layout 1: LF, multi-byte comment on top and a multi-byte string in a metadata block
        let l1 = format!("// é 日本 🎉 header\n/* ünï */\n{src}");
        out.push((format!("{name}/lf-multibyte"), l1));
        // layout 2: CRLF line ends, tabs for indentation, multi-byte comments between lines
        let l2 = src
            .replace("    ", "\t")
            .lines()
            .map(|l| format!("{l}\t// ✓ é\r\n"))
            .collect::<String>();
        out.push((format!("{name}/crlf-tabs-multibyte"), l2));
    }
    out
}

// the last three put a multi-byte character exactly where the parser stops (alone, glued to the next token, 4 bytes)
const OFFENDERS: [&str; 8] = ["@", "}", "Zed", "Zed::Q {}", "\"日本\"", "é", "€", "🎉"];

fn span_info(span: &tx3_lang::ast::Span) -> (bool, usize, usize) {
    let v = serde_json::to_value(span).unwrap_or(Value::Null);
    (v["dummy"].as_bool().unwrap_or(false), span.start, span.end)
}

fn render(diag: &dyn miette::Diagnostic) -> Result<String, String> {
    let mut out = String::new();
    let h = miette::GraphicalReportHandler::new_themed(miette::GraphicalTheme::unicode_nocolor());
    match h.render_report(&mut out, diag) {
        Ok(()) => Ok(out),
        Err(e) => Err(format!("{e}")),
    }
}

pub fn judge(src: &str, o: &mut Outcome) {
    crate::engine::set_phase("parse");
    let parsed = match panics::catch(|| tx3_lang::parsing::parse_string(src)) {
        Ok(p) => p,
        Err(_) => {
            o.class("parse-panic(C12)");
            return;
        }
    };
    match parsed {
        Err(e) => {
            o.class("parse-error");
            let (dummy, start, end) = span_info(&e.span);
            let line_no = src[..start.min(src.len())].matches('\n').count() + 1;
            let where_ = if line_no == 1 { "first-line" } else { "later-line" };
            if dummy {
                o.class("parse-error-dummy-span");
            } else if !(start <= end && end <= e.src.len()) {
                o.violate(Violation::new(
                    format!("parse-error|span-outside-carried-text|{where_}"),
                    format!(
                        "parse error span {start}..{end} but the text carried for display has {} bytes (error on line {line_no})",
                        e.src.len()
                    ),
                ));
            } else if !(e.src.is_char_boundary(start) && e.src.is_char_boundary(end)) {
                o.violate(Violation::new(
                    format!("parse-error|span-not-on-char-boundary|{where_}"),
                    format!("parse error span {start}..{end} splits a character of the carried text"),
                ));
            }
            // what a renderer is handed: every label of the diagnostic must be readable from the source it carries
            // (miette draws no snippet for a label it cannot read, and says nothing)
            {
                use miette::Diagnostic as _;
                if let (Some(labels), Some(code)) = (e.labels(), e.source_code()) {
                    for l in labels {
                        let (off, len) = (l.offset(), l.len());
                        let readable = panics::catch(|| code.read_span(l.inner(), 0, 0).is_ok()).unwrap_or(false);
                        let inside = off + len <= e.src.len() && e.src.is_char_boundary(off) && e.src.is_char_boundary(off + len);
                        if !readable || !inside {
                            o.violate(Violation::new(
                                format!("parse-error|label-outside-carried-text|{where_}"),
                                format!("the label {off}..{} handed to the renderer cannot be read from the {} bytes of text the error carries", off + len, e.src.len()),
                            ));
                        }
                    }
                }
            }
            // the diagnostic must be renderable against the text it carries
            let whole = tx3_lang::Error::from(e);
            match panics::catch(|| render(&whole)) {
                Err(p) => o.violate(Violation::new(
                    format!("render|panic|{}", p.function),
                    format!("rendering the parse error panicked: {}", crate::engine::first_line(&p.message, 120)),
                )),
                Ok(Err(msg)) => o.violate(Violation::new(
                    format!("render|failed|parse-error|{where_}"),
                    format!("miette could not render the parse error: {msg}"),
                )),
                Ok(Ok(_)) => {}
            }
        }
        Ok(mut program) => {
            crate::engine::set_phase("analyze");
            let rep = match panics::catch(|| tx3_lang::analyzing::analyze(&mut program)) {
                Ok(r) => r,
                Err(_) => {
                    o.class("analyze-panic(C12)");
                    return;
                }
            };
            if rep.errors.is_empty() {
                o.class("accepted");
                return;
            }
            o.class("analysis-errors");
            for err in rep.errors.iter() {
                let (dummy, start, end) = span_info(err.span());
                let variant = format!("{err:?}").split('(').next().unwrap_or("?").to_string();
                if dummy {
                    o.class(format!("analysis-dummy-span:{variant}"));
                    continue;
                }
                if !(start <= end && end <= src.len()) {
                    o.violate(Violation::new(
                        format!("analysis-error|span-outside-input|{variant}"),
                        format!("{variant} span {start}..{end}, input has {} bytes", src.len()),
                    ));
                    continue;
                }
                if !(src.is_char_boundary(start) && src.is_char_boundary(end)) {
                    o.violate(Violation::new(
                        format!("analysis-error|span-not-on-char-boundary|{variant}"),
                        format!("{variant} span {start}..{end} splits a character"),
                    ));
                    continue;
                }
                if let tx3_lang::analyzing::Error::NotInScope(n) = err {
                    if &src[start..end] != n.name.as_str() {
                        o.violate(Violation::new(
                            "analysis-error|not-in-scope-span-is-not-the-name",
                            format!("not in scope: {:?} but the located text is {:?}", n.name, &src[start..end]),
                        ));
                    } else {
                        o.class("not-in-scope-located");
                    }
                }
            }
        }
    }
}

/// The same source through the facade (`Workspace::from_string` / `parse` / `analyze`): its diagnostics are rendered
/// against the text the caller handed in, so they must carry the locations the direct path reports for that text.
fn judge_facade(src: &str, o: &mut Outcome) {
    let direct = |src: &str| -> Option<Result<Vec<(String, bool, usize, usize)>, (bool, usize, usize)>> {
        match panics::catch(|| tx3_lang::parsing::parse_string(src)).ok()? {
            Err(e) => Some(Err(span_info(&e.span))),
            Ok(mut program) => {
                let rep = panics::catch(|| tx3_lang::analyzing::analyze(&mut program)).ok()?;
                Some(Ok(rep.errors.iter().map(|e| {
                    let (d, s, e2) = span_info(e.span());
                    (format!("{e:?}").split('(').next().unwrap_or("?").to_string(), d, s, e2)
                }).collect()))
            }
        }
    };
    let Some(want) = direct(src) else { return };
    crate::engine::set_phase("facade");
    let got = panics::catch(|| {
        let mut ws = tx3_lang::Workspace::from_string(src.to_string());
        match ws.parse() {
            Err(tx3_lang::Error::Parsing(e)) => return Some(Err(span_info(&e.span))),
            Err(_) => return None,
            Ok(()) => {}
        }
        if ws.analyze().is_err() {
            return None;
        }
        ws.analisis().map(|rep| {
            Ok(rep.errors.iter().map(|e| {
                let (d, s, e2) = span_info(e.span());
                (format!("{e:?}").split('(').next().unwrap_or("?").to_string(), d, s, e2)
            }).collect::<Vec<_>>())
        })
    });
    match got {
        Err(_) => o.class("facade-panic(C12)"),
        Ok(None) => o.class("facade-other-error"),
        Ok(Some(got)) => {
            if got == want {
                o.class("facade-agrees");
            } else {
                let kind = if want.is_err() { "parse-error" } else { "analysis-error" };
                o.violate(Violation::new(
                    format!("facade|{kind}|located-elsewhere-than-in-the-text-handed-in"),
                    format!("through the facade the diagnostics are {:?}, for the same text directly {:?}", got, want),
                ));
            }
        }
    }
}

/// constructs the AST builder itself rejects (errors attached to a whole node), spread over several lines
fn multiline_custom_errors() -> Vec<(String, String)> {
    let head = "// é 日本\nparty A;\n\ntx t(n: Int) {\n    input src {\n        from: A,\n        min_amount: Ada(n),\n    }\n";
    let tail = "    output {\n        to: A,\n        amount: src - fees,\n    }\n}\n";
    let mut v = vec![];
    let blocks = [
        ("stake-delegation-unknown-field", "    cardano::stake_delegation_certificate {\n        pool: 0xAB,\n        stake: 0xCD,\n        extra: 1,\n    }\n"),
        ("stake-delegation-missing-field", "    cardano::stake_delegation_certificate {\n        pool: 0xAB,\n    }\n"),
        ("number-out-of-range", "    metadata {\n        1:\n          99999999999999999999999999,\n    }\n"),
        ("utxo-ref-odd-hex", "    reference r {\n        ref:\n          0xABC#1,\n    }\n"),
        ("bitcoin-block", "    bitcoin::foo\n"),
    ];
    for (n, b) in blocks {
        v.push((format!("custom-error-{n}"), format!("{head}{b}{tail}")));
        v.push((format!("custom-error-{n}-first"), format!("tx t(n: Int) {{\n{b}}}\n")));
    }
    v.push(("custom-error-tuple-variant".into(), "party A;\ntype Order {\n    Buy(\n        Int,\n        Bytes,\n    ),\n    Sell,\n}\ntx t() {}\n".into()));
    v.push(("custom-error-tuple-variant-one-line".into(), "type Order { Buy(Int,), }".into()));
    v
}

/// metadata values beyond the 64-byte limit whose characters are wider than a byte around the limit (a diagnostic that
/// locates "the part that does not fit" has to cut between characters), after a multi-byte comment
fn oversize_metadata() -> Vec<(String, String)> {
    let mut v = vec![];
    for wide in ["é", "€", "😀"] {
        for k in 56..=66usize {
            let text = format!("{}{}{}", "a".repeat(k), wide.repeat(3), "z".repeat(12));
            v.push((
                format!("oversize-metadata-{}-{k}", wide.len()),
                format!("// ünï\nparty P;\ntx t(q: Int) {{\n    metadata {{\n        1: \"{text}\",\n        2: \"{}\",\n    }}\n}}\n", wide.repeat(40)),
            ));
        }
    }
    v.push(("oversize-metadata-hex".into(), format!("party P;\ntx t(q: Int) {{\n    metadata {{\n        1: 0x{},\n    }}\n}}\n", "ab".repeat(70))));
    v
}

impl Prop for C19 {
    fn id(&self) -> &'static str {
        "C19"
    }
    fn isolated(&self) -> bool {
        true
    }
    fn rule(&self, tier: Tier) -> String {
        format!(
            "every source of the C12 enumeration ({}) plus a positional sweep: each of {} offending tokens inserted at every token boundary of \
             {} multi-line bases (LF with multi-byte comments; CRLF + tabs + multi-byte comments on every line); metadata strings that pass the 64-byte limit with 2-, 3- and 4-byte characters at every offset around it. Oracle: parse error => span \
             within the text the error carries, on char boundaries, every label the diagnostic hands to a renderer readable from that text, and the error renders through miette; analysis error with a real span => \
             within the input, on char boundaries, and for not-in-scope the located text equals the name; every erroneous source again between blank lines, and both forms through Workspace::parse / analyze, whose diagnostics must carry the locations the direct path gives for the text handed in. Non-trivial = the front end reported \
             at least one diagnostic that was judged; distinct = distinct sources.",
            c12::C12.bound(tier),
            OFFENDERS.len(),
            bases().len()
        )
    }
    fn assumptions(&self) -> Vec<String> {
        vec![
            "diagnostics with a dummy span (literals, types) carry no location and are only counted".into(),
            "inputs that panic or hang in the front end are C12's subject and skipped here".into(),
        ]
    }
    fn bound(&self, tier: Tier) -> String {
        format!("{}; injection at every token boundary of 12 bases", c12::C12.bound(tier))
    }
    fn case_kind(&self, case: &Value) -> String {
        c12::C12.case_kind(case)
    }

    fn case_identity(&self, case: &Value) -> String {
        case["src"].as_str().map(|s| s.to_string()).unwrap_or_else(|| case.to_string())
    }

    fn enumerate(&self, tier: Tier, sink: &mut Sink) {
        for (name, src) in bases() {
            let toks = tokens::lex(&src);
            for off in OFFENDERS {
                for t in toks.iter() {
                    sink.case(|| {
                        let mut s = src.clone();
                        // "€" goes in without a separating blank: the character after the error position is the next token's
                        s.insert_str(t.start, &if off == "€" { off.to_string() } else { format!("{off} ") });
                        json!({"kind": "inject", "base": name, "at": t.start, "token": off, "src": s})
                    });
                }
                sink.case(|| json!({"kind": "inject", "base": name, "at": src.len(), "token": off, "src": format!("{src}{off}")}));
            }
        }
        for (name, src) in multiline_custom_errors() {
            sink.case(|| json!({"kind": "custom-error", "base": name, "src": src}));
        }
        for (name, src) in oversize_metadata() {
            sink.case(|| json!({"kind": "analysis-error", "base": name, "src": src}));
        }
        c12::C12.enumerate(tier, sink);
    }

    fn run(&self, case: &Value) -> Outcome {
        let mut o = Outcome::default();
        let generated;
        let src = match case["src"].as_str() {
            Some(s) => s,
            None => {
                generated = c12::nesting_source(case["shape"].as_u64().unwrap_or(0) as usize, 8) + "@";
                &generated
            }
        };
        o.evals = 1;
        if c12::reference_cycle_can_grow(src) {
            o.class("skipped-reference-cycle(C12)");
            return o;
        }
        judge(src, &mut o);
        if o.classes.keys().any(|k| k == "parse-error" || k == "analysis-errors") {
            o.key(hash64(src));
            // erroneous sources also as a caller's file may look - blank lines before and after - and through the facade
            let padded = format!("\n \n  {src}\n\n ");
            o.evals += 2;
            judge(&padded, &mut o);
            judge_facade(&padded, &mut o);
            judge_facade(src, &mut o);
        }
        o
    }
}
