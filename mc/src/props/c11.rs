//! C11 — the TIR wire format round-trips and rejects garbage gracefully.
//!
//! Round trip: every tirgen tree (contexts to depth 2 x probes x placements), leaf sweeps (boundary
//! numbers, string / byte lengths, UTxO sets with datum and script), every IR lowered from the corpus.
//! Garbage: for a corpus of valid encodings every truncation, every single-bit flip, a byte-substitution
//! alphabet at every offset; nesting bombs; length bombs; version strings. Decoding must return Ok / Err.

use super::c13;
use crate::common::canon::canon_tx as canon_tir;
use crate::common::pipeline::{base_address, lower_source};
use crate::common::{boundary_ints, tirb};
use crate::engine::{hash64, panics, Outcome, Prop, Sink, Tier, Violation};
use crate::gen::tirgen::{self, Probe, TreeId};
use serde_json::{json, Value};
use tx3_tir::encoding::{from_bytes, to_bytes, AnyTir, TirVersion};
use tx3_tir::model::assets::CanonicalAssets;
use tx3_tir::model::core::UtxoRef;
use tx3_tir::model::v1beta0 as tir;
use tx3_tir::reduce::{find_params, find_queries};

pub struct C11;

const PROBES: [Probe; 5] = [Probe::Value, Probe::Query, Probe::Fees, Probe::QueryWithValue, Probe::TipSlot];

fn roundtrip(tx: &tir::Tx, what: &str, o: &mut Outcome, detail: &Value) {
    o.evals += 1;
    let res = panics::catch(|| {
        let (bytes, version) = to_bytes(tx);
        (from_bytes(&bytes, version), bytes.len())
    });
    match res {
        Err(p) => {
            o.class("roundtrip-panic");
            o.violate(Violation::new(format!("roundtrip-{}|{what}", p.signature()), format!("encode / decode panicked: {}", p.message)).with_detail(detail.clone()));
        }
        Ok((Err(e), _)) => {
            o.class("decode-of-own-encoding-failed");
            o.violate(
                Violation::new(format!("roundtrip|decode-failed|{what}"), format!("from_bytes(to_bytes(t)) failed: {e}")).with_detail(detail.clone()),
            );
        }
        Ok((Ok(AnyTir::V1Beta0(back)), _)) => {
            if canon_tir(&back) != canon_tir(tx) {
                o.class("roundtrip-differs");
                o.violate(Violation::new(format!("roundtrip|structure-differs|{what}"), "decode(encode(t)) differs from t").with_detail(detail.clone()));
            } else if find_params(&back) != find_params(tx) || find_queries(&back).keys().collect::<Vec<_>>() != find_queries(tx).keys().collect::<Vec<_>>() {
                o.class("roundtrip-reports-differ");
                o.violate(Violation::new(format!("roundtrip|params-or-queries-differ|{what}"), "reported parameters / queries changed").with_detail(detail.clone()));
            } else {
                o.class("roundtrip-equal");
            }
        }
    }
}

fn leaf_trees() -> Vec<(String, tir::Tx)> {
    let mut out = vec![];
    for n in boundary_ints() {
        out.push((format!("number {n}"), tirgen::place(5, tir::Expression::Number(n))));
    }
    for len in [0usize, 1, 23, 24, 255, 256, 65536] {
        out.push((format!("bytes len {len}"), tirgen::place(5, tir::Expression::Bytes(vec![7; len]))));
        out.push((format!("string len {len}"), tirgen::place(5, tir::Expression::String("é".repeat(len / 2) + &"x".repeat(len % 2)))));
        out.push((format!("address len {len}"), tirgen::place(4, tir::Expression::Address(vec![1; len]))));
        out.push((format!("hash len {len}"), tirgen::place(5, tir::Expression::Hash(vec![1; len]))));
    }
    out.push(("bool".into(), tirgen::place(5, tir::Expression::Bool(true))));
    out.push(("none".into(), tirgen::place(5, tir::Expression::None)));
    for n in 0..3usize {
        let set: std::collections::HashSet<_> = (0..n)
            .map(|i| {
                let mut u = tirb::utxo(
                    UtxoRef { txid: vec![i as u8; 32], index: u32::MAX - i as u32 },
                    &base_address(1, 0),
                    CanonicalAssets::from_naked_amount(i128::MAX) + CanonicalAssets::from_defined_asset(&[3; 28], b"", -5),
                );
                u.datum = Some(tir::Expression::Struct(tir::StructExpr { constructor: usize::MAX, fields: vec![tir::Expression::Number(i128::MIN)] }));
                u.script = Some(tir::Expression::Bytes(vec![1, 2, 3]));
                u
            })
            .collect();
        out.push((format!("utxo set of {n}"), tirgen::place(2, tir::Expression::UtxoSet(set))));
    }
    // several outputs of one transaction in one set (identity is the whole ref, not the txid)
    let same_tx: std::collections::HashSet<_> = (0..3u32)
        .map(|i| tirb::utxo(UtxoRef { txid: vec![0xAA; 32], index: i }, &base_address(1, 0), CanonicalAssets::from_naked_amount(1 + i as i128)))
        .collect();
    out.push(("utxo set of 3 outputs of one transaction".into(), tirgen::place(2, tir::Expression::UtxoSet(same_tx))));
    // UTxOs whose values are unusual as values go (what a client's IR may hold is data, not what constructors would
    // have built): only negative amounts, a zero entry, classes with an empty policy / an empty name written as such
    {
        use tx3_tir::model::assets::AssetClass;
        let odd: Vec<(&str, CanonicalAssets)> = vec![
            ("only negative amounts", CanonicalAssets::from_defined_asset(&[3; 28], b"abc", -5)),
            ("negative lovelace", CanonicalAssets::from_naked_amount(-7)),
            ("a zero entry", CanonicalAssets::from_defined_asset(&[3; 28], b"abc", 0)),
            ("class with an empty policy", CanonicalAssets::from_class_and_amount(AssetClass::Defined(vec![], b"abc".to_vec()), 5)),
            ("class with an empty name", CanonicalAssets::from_class_and_amount(AssetClass::Defined(vec![3; 28], vec![]), 5)),
            ("named class with an empty name", CanonicalAssets::from_class_and_amount(AssetClass::Named(vec![]), 5)),
            ("named class beside lovelace", CanonicalAssets::from_class_and_amount(AssetClass::Named(vec![]), 5) + CanonicalAssets::from_naked_amount(2)),
        ];
        for (label, assets) in odd {
            let u = tirb::utxo(UtxoRef { txid: vec![0xBB; 32], index: 9 }, &base_address(1, 0), assets);
            out.push((format!("utxo set: {label}"), tirgen::place(2, tir::Expression::UtxoSet([u].into_iter().collect()))));
        }
    }
    // operators with an absent operand, on either side (an absent operand is a value of the tree like any other and
    // the position it sits in is part of the tree)
    {
        use tir::{BuiltInOp as B, Expression as E};
        let five = || E::Number(5);
        let ops: Vec<(&str, B)> = vec![
            ("add(none, 5)", B::Add(E::None, five())),
            ("add(5, none)", B::Add(five(), E::None)),
            ("add(none, none)", B::Add(E::None, E::None)),
            ("sub(none, 5)", B::Sub(E::None, five())),
            ("sub(5, none)", B::Sub(five(), E::None)),
            ("concat(none, bytes)", B::Concat(E::None, E::Bytes(vec![1, 2]))),
            ("concat(bytes, none)", B::Concat(E::Bytes(vec![1, 2]), E::None)),
            ("property(none, 0)", B::Property(E::None, E::Number(0))),
            ("property(list, none)", B::Property(E::List(vec![five()]), E::None)),
            ("negate(none)", B::Negate(E::None)),
            ("noop(none)", B::NoOp(E::None)),
        ];
        for (label, op) in ops {
            out.push((format!("operator {label}"), tirgen::place(5, E::EvalBuiltIn(Box::new(op)))));
        }
    }
    let mut empty = tirb::empty_tx();
    empty.validity = None;
    out.push(("empty tx".into(), empty));
    // a transaction whose fee expression is absent (nothing to apply a fee to: a constant)
    let mut no_fees = tirgen::place(5, tir::Expression::Number(1));
    no_fees.fees = tir::Expression::None;
    out.push(("fees absent".into(), no_fees));
    // parameter types: every built-in one, and user-defined ones named like each of them (a type's name is data)
    use tx3_tir::model::core::Type;
    for ty in [Type::Undefined, Type::Unit, Type::Int, Type::Bool, Type::Bytes, Type::Address, Type::Utxo, Type::UtxoRef, Type::AnyAsset, Type::List, Type::Map] {
        out.push((format!("parameter of type {ty:?}"), tirgen::place(5, tirb::param("p", ty))));
    }
    for name in ["Undefined", "Unit", "Int", "Bool", "Bytes", "Address", "Utxo", "UtxoRef", "AnyAsset", "List", "Map", "Custom", "", "Parcel", "unit"] {
        out.push((format!("parameter of custom type {name:?}"), tirgen::place(5, tirb::param("p", Type::Custom(name.to_string())))));
    }
    out
}

pub fn valid_corpus() -> Vec<(String, Vec<u8>)> {
    let mut out = vec![];
    for (name, src) in c13::corpus(Tier::Quick) {
        if let Ok(Ok(txs)) = panics::catch(|| lower_source(&src)) {
            for (tx, t) in txs {
                out.push((format!("{name}:{tx}"), to_bytes(&t).0));
            }
        }
    }
    for (label, t) in leaf_trees().into_iter().filter(|(l, _)| l.starts_with("utxo set") || l == "empty tx") {
        out.push((label, to_bytes(&t).0));
    }
    out.sort_by_key(|(n, b)| (b.len(), n.clone()));
    out.truncate(40);
    out
}

const SUBST: [u8; 18] = [0x00, 0x17, 0x18, 0x1b, 0x3b, 0x5b, 0x5f, 0x7b, 0x7f, 0x9b, 0x9f, 0xbb, 0xbf, 0xc2, 0xd8, 0xf9, 0xfb, 0xff];

fn decode_one(bytes: &[u8], family: &str, o: &mut Outcome) {
    o.evals += 1;
    match panics::catch(|| from_bytes(bytes, TirVersion::V1Beta0).is_ok()) {
        Ok(true) => o.class(format!("{family}:accepted")),
        Ok(false) => o.class(format!("{family}:rejected")),
        Err(p) => {
            o.class(format!("{family}:panic"));
            o.violate(
                Violation::new(format!("decode-{}|{family}", p.signature()), format!("from_bytes panicked: {}", p.message))
                    .with_detail(json!({"bytes": hex::encode(&bytes[..bytes.len().min(400)])})),
            );
        }
    }
}

pub fn bomb(shape: &str, n: usize) -> Vec<u8> {
    match shape {
        "array" => vec![0x81; n],
        "map" => {
            // {0: {0: ...}}
            let mut v = vec![];
            for _ in 0..n {
                v.extend([0xa1, 0x00]);
            }
            v.push(0x00);
            v
        }
        "tag" => {
            let mut v = vec![0xc2; n];
            v.push(0x40);
            v
        }
        "indef-array" => vec![0x9f; n],
        "fees-field" => {
            // nested inside a plausible document: {"fees": [[[...
            let mut v = vec![0xa1, 0x64, b'f', b'e', b'e', b's'];
            v.extend(vec![0x81; n]);
            v
        }
        "valid-list-nesting" => {
            // well-shaped all the way down: {"fees": {"List": [{"List": [ ... "None" ... ]}]}}
            let mut v = vec![0xa1, 0x64, b'f', b'e', b'e', b's'];
            for _ in 0..n {
                v.extend([0xa1, 0x64, b'L', b'i', b's', b't', 0x81]);
            }
            v.extend([0x64, b'N', b'o', b'n', b'e']);
            v
        }
        "valid-negate-nesting" => {
            // {"fees": {"EvalBuiltIn": {"Negate": {"EvalBuiltIn": {"Negate": ... {"Number": 1}}}}}}
            let mut v = vec![0xa1, 0x64, b'f', b'e', b'e', b's'];
            for _ in 0..n {
                v.push(0xa1);
                v.push(0x6b);
                v.extend(b"EvalBuiltIn");
                v.push(0xa1);
                v.push(0x66);
                v.extend(b"Negate");
            }
            v.push(0xa1);
            v.push(0x66);
            v.extend(b"Number");
            v.push(0x01);
            v
        }
        _ => {
            // an unknown key is skipped by the decoder, whatever hangs below it
            let mut v = vec![0xa1, 0x63, b'z', b'z', b'z'];
            v.extend(vec![0x81; n]);
            v.push(0x00);
            v
        }
    }
}

const BOMB_SHAPES: [&str; 8] = ["array", "map", "tag", "indef-array", "fees-field", "valid-list-nesting", "valid-negate-nesting", "unknown-key"];
const BOMB_DEPTHS: [usize; 12] = [10, 100, 127, 128, 129, 255, 256, 257, 1_000, 10_000, 100_000, 1_000_000];

impl Prop for C11 {
    fn id(&self) -> &'static str {
        "C11"
    }
    fn isolated(&self) -> bool {
        true
    }
    fn rule(&self, _tier: Tier) -> String {
        format!(
            "round trip: every tirgen tree ({} contexts to depth 2 x 5 probes x {} placements), leaf sweeps (all boundary integers, byte / string / \
             address / hash lengths 0..65536, UTxO sets of 0..2 with datum and script, extreme amounts), every tx lowered from the corpus: \
             canonical(decode(encode(t))) = canonical(t) and equal reported parameters / queries. Garbage: for {} valid encodings every prefix, every \
             single-bit flip and 18 byte substitutions at every offset; nesting bombs (8 shapes, three of them well-shaped IR all the way down or below an unknown key, x 12 depths up to 10^6) alone and spliced into every \
             field position of a valid document; length bombs; version names (known, retired, edits of the current one, unknown names of every length 0..80 in ASCII and with wide characters at every offset). Oracle: from_bytes returns Ok or Err (no panic / abort / hang, \
             4 GiB cap). Non-trivial = a decode was executed; distinct = distinct trees / (document, mutation family).",
            tirgen::contexts().len(),
            tirgen::PLACEMENTS.len(),
            valid_corpus().len()
        )
    }
    fn assumptions(&self) -> Vec<String> {
        vec![
            "canonical form sorts map keys and UtxoSet members and drops nothing else".into(),
            "byte strings are mutated one position at a time; multi-position corruptions are only reached through bombs".into(),
        ]
    }
    fn bound(&self, _tier: Tier) -> String {
        "trees to depth 2; single-position mutations of 40 documents; bombs to depth 10^6".into()
    }

    fn enumerate(&self, tier: Tier, sink: &mut Sink) {
        sink.case(|| json!({"kind": "leaves"}));
        sink.case(|| json!({"kind": "corpus-roundtrip"}));
        sink.case(|| json!({"kind": "versions"}));
        let n = tirgen::contexts().len();
        for placement in 0..tirgen::PLACEMENTS.len() {
            for p in 0..PROBES.len() {
                sink.case(|| json!({"kind": "trees", "placement": placement, "probe": p, "depth2": tier.is_thorough() || placement % 3 == p % 3}));
            }
        }
        let _ = n;
        let docs = valid_corpus().len();
        for d in 0..docs {
            for fam in ["truncate", "bitflip", "subst", "splice-bomb", "length-bomb"] {
                sink.case(|| json!({"kind": format!("garbage-{fam}"), "doc": d}));
            }
        }
        for shape in BOMB_SHAPES {
            for depth in BOMB_DEPTHS {
                sink.case(|| json!({"kind": format!("bomb-{shape}"), "depth": depth}));
            }
        }
    }

    fn run(&self, case: &Value) -> Outcome {
        let mut o = Outcome::default();
        let kind = case["kind"].as_str().unwrap_or("");
        crate::engine::set_phase("decode");
        match kind {
            "leaves" => {
                for (label, t) in leaf_trees() {
                    roundtrip(&t, "leaf", &mut o, &json!({"leaf": label}));
                    o.key(hash64(&label));
                }
            }
            "corpus-roundtrip" => {
                for (name, src) in c13::corpus(Tier::Thorough) {
                    if let Ok(Ok(txs)) = panics::catch(|| lower_source(&src)) {
                        for (tx, t) in txs {
                            roundtrip(&t, "lowered", &mut o, &json!({"file": name, "tx": tx}));
                            o.key(hash64(&(name.clone(), tx)));
                        }
                    }
                }
            }
            "versions" => {
                let (bytes, _) = to_bytes(&tirb::empty_tx());
                // names of unknown versions of every length 0..80, in ASCII and with 2-, 3- and 4-byte characters at
                // every offset (an error that quotes the name must not cut it inside a character), and single
                // edits of the current name
                let mut names: Vec<String> = ["v1beta0", "v1alpha8", "v1alpha9", "", "V1BETA0", "junk", "v1beta1", "v1beta0 ", " v1beta0", "v1beta", "v1beta00", "v1beta0\0"]
                    .iter()
                    .map(|s| s.to_string())
                    .collect();
                for k in 0..=80usize {
                    names.push("x".repeat(k));
                    for wide in ["é", "€", "😀"] {
                        names.push(format!("{}{}", "x".repeat(k), wide.repeat(12)));
                    }
                }
                names.push("v".repeat(100_000));
                for v in names.iter().map(|s| s.as_str()) {
                    o.evals += 1;
                    let r = panics::catch(|| TirVersion::try_from(v).map(|ver| from_bytes(&bytes, ver).is_ok()));
                    match r {
                        Err(p) => o.violate(Violation::new(format!("version-{}", p.signature()), format!("version {v:?} panicked"))),
                        Ok(Ok(true)) => {
                            o.class("version-accepted");
                            if v != "v1beta0" {
                                o.violate(Violation::new("version|unsupported-accepted", format!("version {v:?} decoded successfully")));
                            }
                        }
                        Ok(Ok(false)) | Ok(Err(_)) => {
                            o.class("version-refused");
                            if v == "v1beta0" {
                                o.violate(Violation::new("version|current-refused", "the declared current version is refused"));
                            }
                        }
                    }
                    o.key(hash64(v));
                }
            }
            "trees" => {
                let placement = case["placement"].as_u64().unwrap_or(0) as usize;
                let probe = PROBES[case["probe"].as_u64().unwrap_or(0) as usize];
                let n = tirgen::contexts().len();
                let mut ids = vec![TreeId { outer: None, inner: None, probe, placement }];
                for i in 0..n {
                    ids.push(TreeId { outer: None, inner: Some(i), probe, placement });
                }
                if case["depth2"].as_bool().unwrap_or(false) {
                    for a in 0..n {
                        for b in 0..n {
                            ids.push(TreeId { outer: Some(a), inner: Some(b), probe, placement });
                        }
                    }
                }
                for id in ids {
                    roundtrip(&tirgen::build_tree(&id), "tree", &mut o, &json!({"tree": tirgen::describe(&id)}));
                    o.key(hash64(&tirgen::describe(&id)));
                }
            }
            k if k.starts_with("garbage-") => {
                let docs = valid_corpus();
                let Some((name, doc)) = docs.get(case["doc"].as_u64().unwrap_or(0) as usize) else { return o };
                match &k["garbage-".len()..] {
                    "truncate" => {
                        for cut in 0..doc.len() {
                            decode_one(&doc[..cut], "truncated", &mut o);
                        }
                    }
                    "bitflip" => {
                        for i in 0..doc.len() {
                            for bit in 0..8 {
                                let mut d = doc.clone();
                                d[i] ^= 1 << bit;
                                decode_one(&d, "bitflip", &mut o);
                            }
                        }
                    }
                    "subst" => {
                        for i in 0..doc.len() {
                            for s in SUBST {
                                if doc[i] != s {
                                    let mut d = doc.clone();
                                    d[i] = s;
                                    decode_one(&d, "subst", &mut o);
                                }
                            }
                        }
                    }
                    "splice-bomb" => {
                        // replace the tail after each offset by a run of array openers
                        for i in (0..doc.len()).step_by(1) {
                            for depth in [200usize, 5_000] {
                                let mut d = doc[..i].to_vec();
                                d.extend(vec![0x81; depth]);
                                decode_one(&d, "splice-bomb", &mut o);
                            }
                        }
                    }
                    _ => {
                        // length bombs: a header claiming 2^32-1 / 2^64-1 items at each offset
                        for i in 0..doc.len() {
                            for major in [0x40u8, 0x60, 0x80, 0xa0] {
                                for (info, arg) in [(26u8, vec![0xff; 4]), (27u8, vec![0xff; 8])] {
                                    let mut d = doc[..i].to_vec();
                                    d.push(major | info);
                                    d.extend(arg);
                                    d.extend_from_slice(&doc[i..]);
                                    decode_one(&d, "length-bomb", &mut o);
                                }
                            }
                        }
                    }
                }
                o.key(hash64(&(name, k)));
            }
            k if k.starts_with("bomb-") => {
                let depth = case["depth"].as_u64().unwrap_or(10) as usize;
                decode_one(&bomb(&k["bomb-".len()..], depth), "bomb", &mut o);
                o.key(hash64(&(k, depth)));
            }
            _ => {}
        }
        o
    }
}
