//! C10 — emitted transactions are well-formed, self-consistent and reproducible.
//!
//! Constant TIRs for every subset of 19 optional features are compiled; each payload is decoded by pallas
//! (the "standard decoder") and by the independent CBOR reader; body hash, auxiliary-data hash and
//! script-data hash are recomputed from the payload bytes; the raw CBOR is scanned for duplicate keys and
//! empty set-like fields; compilation is repeated (same compiler, fresh compiler, every iteration order of
//! multi-UTxO sets) and must give byte-identical payloads.

use crate::common::cbor::{self, Cbor, Node};
use crate::common::pipeline::{base_address, compiler, cost_model, cred, stake_address, PP};
use crate::common::store::ordered_utxo_set;
use crate::common::{tirb, txdecode};
use crate::engine::{hash64, panics, Outcome, Prop, Sink, Tier, Violation};
use serde_json::{json, Value};
use tx3_tir::compile::Compiler as _;
use tx3_tir::encoding::AnyTir;
use tx3_tir::model::assets::CanonicalAssets;
use tx3_tir::model::core::UtxoRef;
use tx3_tir::model::v1beta0 as tir;

pub struct C10;

pub const FEATURES: [&str; 19] = [
    "metadata",
    "input-redeemer",
    "mint",
    "burn",
    "burn-equals-mint",
    "mint-redeemer",
    "plutus-v2-witness",
    "plutus-v3-witness",
    "native-witness",
    "vanishing-optional-output",
    "reference-input",
    "collateral",
    "signers",
    "withdrawal",
    "donation",
    "two-utxo-input",
    "validity",
    "second-policy-mint",
    "output-tokens-cancel",
];

fn validity_bounds(mask: u32) -> (i128, i128) {
    (if has(mask, "signers") { 0 } else { 100 }, if has(mask, "metadata") { 0 } else { 900 })
}

fn has(mask: u32, name: &str) -> bool {
    let i = FEATURES.iter().position(|f| *f == name).unwrap();
    mask & (1 << i) != 0
}

fn uref(tag: u8, index: u32) -> UtxoRef {
    UtxoRef { txid: vec![tag; 32], index }
}

pub fn build(mask: u32, network: u8, set_rank: usize) -> tir::Tx {
    let addr = base_address(4, network);
    let mut tx = tirb::empty_tx();
    tx.fees = tirb::assets(vec![tirb::lovelace(180_000)]);
    let u0 = tirb::utxo(uref(0x33, 1), &addr, CanonicalAssets::from_naked_amount(9_000_000));
    tx.inputs.push(tir::Input {
        name: "a".into(),
        utxos: tir::Expression::UtxoSet([u0].into_iter().collect()),
        redeemer: if has(mask, "input-redeemer") { tir::Expression::Number(7) } else { tir::Expression::None },
    });
    if has(mask, "two-utxo-input") {
        let us = vec![
            // two outputs of one transaction: only the full (txid, index) key orders them
            tirb::utxo(uref(0x22, 4), &addr, CanonicalAssets::from_naked_amount(3_000_000)),
            tirb::utxo(uref(0x22, 0), &addr, CanonicalAssets::from_naked_amount(3_000_000)),
        ];
        tx.inputs.push(tir::Input {
            name: "b".into(),
            utxos: tir::Expression::UtxoSet(ordered_utxo_set(&us, set_rank)),
            redeemer: tir::Expression::None,
        });
    }
    let pol = vec![0x77u8; 28];
    let mint_red = if has(mask, "mint-redeemer") { tir::Expression::Number(9) } else { tir::Expression::None };
    if has(mask, "mint") {
        tx.mints.push(tir::Mint { amount: tirb::assets(vec![tirb::token(&pol, b"A", 5)]), redeemer: mint_red.clone() });
    }
    if has(mask, "burn") {
        let n = if has(mask, "burn-equals-mint") { 5 } else { 2 };
        tx.burns.push(tir::Mint { amount: tirb::assets(vec![tirb::token(&pol, b"A", n)]), redeemer: mint_red.clone() });
    }
    if has(mask, "second-policy-mint") {
        // a second policy that survives while the first one may cancel completely
        tx.mints.push(tir::Mint { amount: tirb::assets(vec![tirb::token(&[0x88u8; 28], b"y", 3)]), redeemer: tir::Expression::None });
    }
    let mut out_assets = vec![tirb::lovelace(2_000_000)];
    if has(mask, "output-tokens-cancel") {
        // one policy whose entries cancel inside the output next to one that survives
        out_assets.push(tirb::token(&pol, b"A", 5));
        out_assets.push(tirb::token(&[0x88u8; 28], b"y", 1));
        out_assets.push(tirb::token(&pol, b"A", -5));
    }
    tx.outputs.push(tir::Output {
        address: tir::Expression::Address(addr.clone()),
        datum: tir::Expression::None,
        amount: tirb::assets(out_assets),
        optional: false,
    });
    if has(mask, "donation") {
        // a required output whose only amount is a token entry of zero: its value is plain lovelace (zero), not a pair
        // with an empty token map
        tx.outputs.push(tir::Output {
            address: tir::Expression::Address(addr.clone()),
            datum: tir::Expression::None,
            amount: tirb::assets(vec![tirb::token(&[0x88u8; 28], b"y", 0)]),
            optional: false,
        });
    }
    if has(mask, "vanishing-optional-output") {
        tx.outputs.push(tir::Output {
            address: tir::Expression::Address(addr.clone()),
            datum: tir::Expression::None,
            amount: tirb::assets(vec![tirb::lovelace(0)]),
            optional: true,
        });
    }
    if has(mask, "metadata") {
        tx.metadata.push(tir::Metadata { key: tir::Expression::Number(674), value: tir::Expression::String("memo".into()) });
    }
    let adhoc = |name: &str, data: Vec<(&str, tir::Expression)>| tir::AdHocDirective {
        name: name.to_string(),
        data: data.into_iter().map(|(k, v)| (k.to_string(), v)).collect(),
    };
    if has(mask, "plutus-v2-witness") {
        tx.adhoc.push(adhoc("plutus_witness", vec![("version", tir::Expression::Number(2)), ("script", tir::Expression::Bytes(vec![0x4e, 0x4d, 0x01, 0x00, 0x00]))]));
    }
    if has(mask, "plutus-v3-witness") {
        // (beside a native script also after a witness directive that names no language: such a directive attaches
        // nothing, and must not shift the scripts of the directives after it)
        if has(mask, "native-witness") {
            tx.adhoc.push(adhoc("plutus_witness", vec![("script", tir::Expression::Bytes(vec![0x4e, 0x4d, 0x01, 0xEE, 0xEE]))]));
        }
        tx.adhoc.push(adhoc("plutus_witness", vec![("version", tir::Expression::Number(3)), ("script", tir::Expression::Bytes(vec![0x46, 0x01, 0x01, 0x00]))]));
    }
    if has(mask, "native-witness") {
        let mut script = vec![0x82, 0x00, 0x58, 0x1c];
        script.extend(cred(8));
        tx.adhoc.push(adhoc("native_witness", vec![("script", tir::Expression::Bytes(script))]));
    }
    if has(mask, "reference-input") {
        tx.references.push(tir::Expression::UtxoRefs(vec![uref(0x55, 2)]));
    }
    if has(mask, "collateral") {
        let c = tirb::utxo(uref(0x66, 0), &addr, CanonicalAssets::from_naked_amount(5_000_000));
        tx.collateral.push(tir::Collateral { utxos: tir::Expression::UtxoSet([c].into_iter().collect()) });
    }
    if has(mask, "signers") {
        // four of them, not in ascending order: a set-like field whose order has to be the same on every compilation
        tx.signers = Some(tir::Signers { signers: [4u8, 2, 9, 7].iter().map(|k| tir::Expression::Bytes(cred(*k))).collect() });
    }
    if has(mask, "withdrawal") {
        tx.adhoc.push(adhoc(
            "withdrawal",
            vec![
                ("credential", tir::Expression::Address(stake_address(6, network))),
                ("amount", tir::Expression::Number(10)),
                ("redeemer", tir::Expression::None),
            ],
        ));
    }
    if has(mask, "donation") {
        tx.adhoc.push(adhoc("treasury_donation", vec![("coin", tir::Expression::Number(5))]));
    }
    if has(mask, "validity") {
        // a bound of 0 is a bound (until slot 0: never valid): which of the two is 0 goes with two other features
        let (since, until) = validity_bounds(mask);
        tx.validity = Some(tir::Validity { since: tir::Expression::Number(since), until: tir::Expression::Number(until) });
    }
    tx
}

// ---- minimal canonical CBOR encoder for the language views ----
fn enc_head(major: u8, n: u64, out: &mut Vec<u8>) {
    let m = major << 5;
    if n < 24 {
        out.push(m | n as u8);
    } else if n <= 0xff {
        out.push(m | 24);
        out.push(n as u8);
    } else if n <= 0xffff {
        out.push(m | 25);
        out.extend((n as u16).to_be_bytes());
    } else if n <= 0xffff_ffff {
        out.push(m | 26);
        out.extend((n as u32).to_be_bytes());
    } else {
        out.push(m | 27);
        out.extend(n.to_be_bytes());
    }
}

fn enc_int(v: i64, out: &mut Vec<u8>) {
    if v >= 0 {
        enc_head(0, v as u64, out);
    } else {
        enc_head(1, (-1 - v) as u64, out);
    }
}

/// language views encoding of the script integrity hash (Alonzo / Babbage / Conway ledger specs)
fn language_views(version: u8, model: &[i64]) -> Vec<u8> {
    let mut out = vec![];
    enc_head(5, 1, &mut out);
    if version == 0 {
        // PlutusV1: key and value are both wrapped in byte strings, the list is indefinite
        let mut inner = vec![0x9f];
        for v in model {
            enc_int(*v, &mut inner);
        }
        inner.push(0xff);
        enc_head(2, 1, &mut out);
        out.push(0x00);
        enc_head(2, inner.len() as u64, &mut out);
        out.extend(inner);
    } else {
        enc_head(0, version as u64, &mut out);
        enc_head(4, model.len() as u64, &mut out);
        for v in model {
            enc_int(*v, &mut out);
        }
    }
    out
}

fn scan(n: &Node, path: &str, problems: &mut Vec<(String, String)>) {
    match &n.v {
        Cbor::Map { entries, .. } => {
            for i in 0..entries.len() {
                for j in i + 1..entries.len() {
                    if entries[i].0.v == entries[j].0.v {
                        problems.push(("duplicate-map-key".into(), format!("duplicate key at {path}")));
                    }
                }
            }
            for (k, v) in entries {
                let kp = match &k.v {
                    Cbor::UInt(u) => format!("{path}/{u}"),
                    _ => format!("{path}/*"),
                };
                scan(k, &kp, problems);
                scan(v, &kp, problems);
            }
        }
        Cbor::Array { items, .. } => items.iter().for_each(|x| scan(x, &format!("{path}/[]"), problems)),
        Cbor::Tag(_, inner) => scan(inner, path, problems),
        _ => {}
    }
}

fn is_empty_container(n: &Node) -> bool {
    match &n.v {
        Cbor::Map { entries, .. } => entries.is_empty(),
        Cbor::Array { items, .. } => items.is_empty(),
        Cbor::Tag(258, inner) => is_empty_container(inner),
        _ => false,
    }
}

pub fn check_payload(payload: &[u8], reported_hash: &[u8], pp: &PP, o: &mut Outcome, detail: &Value) {
    let viol = |o: &mut Outcome, sig: String, what: String| o.violate(Violation::new(sig, what).with_detail(detail.clone()));
    // 1. the standard decoder accepts it as a Conway transaction
    use tx3_cardano::pallas::ledger::traverse::{Era, MultiEraTx};
    match panics::catch(|| MultiEraTx::decode_for_era(Era::Conway, payload).map(|_| ())) {
        Ok(Ok(())) => {}
        Ok(Err(e)) => viol(o, "pallas-rejects".into(), format!("pallas cannot decode the payload as a Conway tx: {e}")),
        Err(p) => viol(o, "pallas-panics".into(), format!("pallas panicked decoding the payload: {}", p.message)),
    }
    let rec = match txdecode::decode_tx(payload) {
        Ok(r) => r,
        Err(e) => {
            viol(o, "not-a-conway-tx".into(), e);
            return;
        }
    };
    let root = cbor::decode(payload).expect("decoded above");
    let parts = root.as_array().unwrap();
    // 2. hash = blake2b-256 of the body bytes inside the payload
    let body = &payload[rec.body_range.0..rec.body_range.1];
    if txdecode::blake2b256(body) != reported_hash {
        viol(o, "hash|not-digest-of-body-bytes".into(), "CompiledTx.hash differs from blake2b-256(body bytes in payload)".into());
    }
    // 3. auxiliary data hash
    match (&rec.aux_hash, rec.aux_range) {
        (Some(h), Some((s, e))) => {
            if *h != txdecode::blake2b256(&payload[s..e]) {
                viol(o, "aux-hash|wrong-digest".into(), "auxiliary_data_hash differs from the digest of the auxiliary data carried".into());
            }
        }
        (None, None) => {}
        (Some(_), None) => viol(o, "aux-hash|present-without-aux-data".into(), "auxiliary_data_hash without auxiliary data".into()),
        (None, Some(_)) => viol(o, "aux-hash|missing".into(), "auxiliary data without auxiliary_data_hash".into()),
    }
    if rec.aux_present && rec.metadata.is_empty() {
        viol(o, "aux-data|empty".into(), "auxiliary data present but carries no metadata".into());
    }
    // 4. script data hash
    let wit = &parts[1];
    let redeemers_node = wit.map_get_u(5);
    let datums_node = wit.map_get_u(4);
    match (&rec.script_data_hash, redeemers_node) {
        (Some(h), Some(r)) => {
            let version = if rec.plutus_scripts[0] > 0 {
                0
            } else if rec.plutus_scripts[1] > 0 {
                1
            } else {
                2
            };
            let mut buf = payload[r.start..r.end].to_vec();
            if let Some(d) = datums_node {
                buf.extend_from_slice(&payload[d.start..d.end]);
            }
            if pp.cost_models & (1 << version) == 0 {
                viol(
                    o,
                    format!("script-data-hash|made-without-the-cost-model|plutus-v{}", version + 1),
                    "the protocol parameters hold no cost model for the scripts' language, yet a script_data_hash was produced (it cannot commit to the language view the ledger will use)".into(),
                );
            }
            if pp.cost_models & (1 << version) != 0 {
                buf.extend(language_views(version, &crate::common::pipeline::cost_model_variant(version, pp.cost_variant)));
                if *h != txdecode::blake2b256(&buf) {
                    viol(
                        o,
                        format!("script-data-hash|wrong-digest|plutus-v{}", version + 1),
                        "script_data_hash differs from blake2b-256(redeemers || datums || language views) of what the payload carries".into(),
                    );
                }
            }
        }
        (None, None) => {}
        (Some(_), None) => viol(o, "script-data-hash|present-without-redeemers".into(), "script_data_hash present but the witness set has no redeemers".into()),
        (None, Some(_)) => viol(o, "script-data-hash|missing".into(), "redeemers present but no script_data_hash".into()),
    }
    // 5. raw CBOR: duplicates and empty set-like fields
    let mut problems = vec![];
    scan(&parts[0], "body", &mut problems);
    scan(&parts[1], "witness", &mut problems);
    for key in [0u64, 4, 5, 9, 13, 14, 18] {
        if let Some(v) = parts[0].map_get_u(key) {
            if is_empty_container(v) {
                problems.push((format!("empty-field|body-{key}"), format!("body field {key} is present but empty")));
            }
            if key == 9 || key == 5 {
                if let Some(es) = v.as_map() {
                    for (_, inner) in es {
                        if is_empty_container(inner) {
                            problems.push((format!("empty-field|body-{key}-inner"), format!("body field {key} has an empty inner map")));
                        }
                    }
                }
            }
            // set-like fields: no duplicate members
            if let Some(items) = v.as_set() {
                for i in 0..items.len() {
                    for j in i + 1..items.len() {
                        if payload[items[i].start..items[i].end] == payload[items[j].start..items[j].end] {
                            problems.push((format!("duplicate-member|body-{key}"), format!("body field {key} lists one member twice")));
                        }
                    }
                }
            }
        }
    }
    if let Some(es) = parts[1].as_map() {
        for (k, v) in es {
            if is_empty_container(v) {
                problems.push((format!("empty-field|witness-{}", k.as_u64().unwrap_or(99)), "witness set field present but empty".into()));
            }
        }
    }
    for o2 in parts[0].map_get_u(1).and_then(|x| x.as_array()).unwrap_or(&[]) {
        if let Some(val) = o2.map_get_u(1) {
            if let Some(a) = val.as_array() {
                if a.get(1).map(is_empty_container).unwrap_or(false) {
                    problems.push(("empty-field|output-multiasset".into(), "output value has an empty multi-asset map".into()));
                }
                for (_, inner) in a.get(1).and_then(|m| m.as_map()).unwrap_or(&[]) {
                    if is_empty_container(inner) {
                        problems.push(("empty-field|output-multiasset-inner".into(), "output value has an empty inner asset map".into()));
                    }
                }
            }
        }
    }
    problems.sort();
    problems.dedup();
    for (sig, what) in problems {
        viol(o, sig, what);
    }
    // 6. network id
    if rec.network_id != Some(pp.network as u64) {
        viol(o, "network-id|mismatch".into(), format!("network_id {:?}, configured {}", rec.network_id, pp.network));
    }
}

fn judge(mask: u32, config: u8, o: &mut Outcome) {
    // configurations 0 / 1: the two networks, which come with different cost models (one process compiles under both);
    // 2.. : protocol parameters that lack the cost model of some language (only v1 / only v3 / none)
    let network = if config <= 1 { config } else { 0 };
    let cost_models = match config {
        0 | 1 => 0b111u8,
        2 => 0b001,
        3 => 0b100,
        _ => 0,
    };
    let pp = PP { network, cost_variant: network, cost_models, ..PP::default() };
    let detail = json!({"features": FEATURES.iter().filter(|f| has(mask, f)).collect::<Vec<_>>(), "network": network, "cost_models": cost_models});
    let with_redeemers = has(mask, "input-redeemer") || (has(mask, "mint-redeemer") && (has(mask, "mint") || has(mask, "burn")));
    let tx = build(mask, network, 0);
    // history of the process: the same template was compiled before by an instance configured with the other cost
    // models (nothing a compiler computes from its configuration may be remembered outside the instance)
    if std::env::var("VERIF_C10_NO_WARMUP").is_err() {
        let mut other = compiler(&PP { cost_variant: 1 - network.min(1), ..pp.clone() });
        let _ = panics::catch(|| other.compile(&AnyTir::V1Beta0(tx.clone())));
    }
    let mut c1 = compiler(&pp);
    let r1 = panics::catch(|| c1.compile(&AnyTir::V1Beta0(tx.clone())));
    let first = match r1 {
        Err(p) => {
            o.class("compile-panic");
            o.violate(Violation::new(format!("compile-{}", p.signature()), format!("compile panicked: {}", p.message)).with_detail(detail));
            return;
        }
        Ok(Err(_)) if cost_models != 0b111 && with_redeemers => {
            // redeemers need a script data hash, which needs the cost model of the script's language: without it
            // there is nothing consistent to emit
            o.class("compile-error-missing-cost-model");
            return;
        }
        Ok(Err(e)) => {
            if has(mask, "mint") && has(mask, "burn") && has(mask, "burn-equals-mint") && has(mask, "mint-redeemer") {
                // a redeemer written for a policy whose mint and burn cancel has no item left to guard: refusing is legitimate
                o.class("compile-error-redeemer-for-cancelled-policy");
                return;
            }
            o.class("compile-error");
            o.violate(
                Violation::new(format!("compile-error|{}", panics::normalize_message(&e.to_string())), format!("constant template failed to compile: {e}"))
                    .with_detail(detail),
            );
            return;
        }
        Ok(Ok(c)) => c,
    };
    o.class("compiled");
    check_payload(&first.payload, &first.hash, &pp, o, &detail);
    // the scripts attached: one per directive that names a language, under that language, with its own bytes
    if let Ok(rec) = txdecode::decode_tx(&first.payload) {
        let want = [0usize, has(mask, "plutus-v2-witness") as usize, has(mask, "plutus-v3-witness") as usize];
        let wit = &first.payload[rec.witness_range.0..rec.witness_range.1];
        let holds = |needle: &[u8]| wit.windows(needle.len()).any(|w| w == needle);
        let mut wrong = vec![];
        if rec.plutus_scripts != want {
            wrong.push(format!("plutus scripts per language {:?}, the template attaches {:?}", rec.plutus_scripts, want));
        }
        if has(mask, "plutus-v3-witness") && !holds(&[0x44, 0x46, 0x01, 0x01, 0x00]) {
            wrong.push("the v3 script's bytes are not in the witness set".into());
        }
        if has(mask, "plutus-v2-witness") && !holds(&[0x45, 0x4e, 0x4d, 0x01, 0x00, 0x00]) {
            wrong.push("the v2 script's bytes are not in the witness set".into());
        }
        if holds(&[0x4e, 0x4d, 0x01, 0xEE, 0xEE]) {
            wrong.push("the script of a directive that names no language is in the witness set".into());
        }
        if rec.native_scripts != has(mask, "native-witness") as usize {
            wrong.push(format!("{} native scripts, the template attaches {}", rec.native_scripts, has(mask, "native-witness") as usize));
        }
        for w in wrong {
            o.violate(Violation::new("witness-scripts|differ-from-the-template", w).with_detail(detail.clone()));
        }
    }
    // the validity interval: present exactly as written, a bound of 0 included
    if let Ok(rec) = txdecode::decode_tx(&first.payload) {
        let want = if has(mask, "validity") {
            let (a, b) = validity_bounds(mask);
            (Some(a as u64), Some(b as u64))
        } else {
            (None, None)
        };
        if (rec.validity_start, rec.ttl) != want {
            o.violate(Violation::new("validity|bounds-differ-from-the-template", format!("the template's interval is {want:?}, the body has start {:?} / ttl {:?}", rec.validity_start, rec.ttl)).with_detail(detail.clone()));
        }
    }
    // 7. determinism
    let again = c1.compile(&AnyTir::V1Beta0(tx.clone())).ok();
    if again.as_ref().map(|c| &c.payload) != Some(&first.payload) {
        o.violate(Violation::new("nondeterministic|same-compiler", "compiling the same template twice on one compiler gave different payloads").with_detail(detail.clone()));
    }
    let mut c2 = compiler(&pp);
    let fresh = c2.compile(&AnyTir::V1Beta0(tx.clone())).ok();
    if fresh.as_ref().map(|c| &c.payload) != Some(&first.payload) {
        o.violate(Violation::new("nondeterministic|fresh-compiler", "a fresh identically configured compiler gave a different payload").with_detail(detail.clone()));
    }
    if has(mask, "two-utxo-input") {
        // the other iteration order of the 2-UTxO set
        let tx2 = build(mask, network, 1);
        let mut c3 = compiler(&pp);
        let other = c3.compile(&AnyTir::V1Beta0(tx2)).ok();
        o.count("set_orders_enumerated", 2);
        if other.as_ref().map(|c| &c.payload) != Some(&first.payload) {
            o.violate(
                Violation::new("nondeterministic|utxo-set-iteration-order", "the payload depends on the iteration order of a multi-UTxO input set")
                    .with_detail(detail.clone()),
            );
        }
    }
}

impl Prop for C10 {
    fn id(&self) -> &'static str {
        "C10"
    }
    fn rule(&self, tier: Tier) -> String {
        format!(
            "constant TIRs for every subset of {} optional features ({}) on testnet, plus {} on mainnet: pallas decodes the payload as Conway; \
             blake2b-256 of the body bytes located by an independent CBOR reader = reported hash; auxiliary_data_hash and script_data_hash present iff \
             metadata / redeemers are and equal to digests recomputed from the payload bytes (language views re-encoded from the configured cost \
             model); no duplicate map key, no empty or duplicated set-like field (inputs, certs, withdrawals, mint outer/inner, collateral, required \
             signers, reference inputs, witness fields, output multi-assets); network id; byte-identical payloads on recompilation (same compiler, \
             fresh compiler, both iteration orders of a 2-UTxO input set). Non-trivial = compiled; distinct = (feature subset, network).",
            FEATURES.len(),
            FEATURES.join(", "),
            if tier.is_thorough() { "every subset" } else { "every subset of the first 10 features" }
        )
    }
    fn assumptions(&self) -> Vec<String> {
        vec![
            "pallas is the standard decoder (trusted); hashes are recomputed with blake2b from pallas-crypto over byte ranges found by my own CBOR reader".into(),
            "script integrity hash layout (redeemers || datums || language views) follows the Alonzo-Conway ledger specs".into(),
        ]
    }
    fn bound(&self, _tier: Tier) -> String {
        format!("all 2^{} feature subsets", FEATURES.len())
    }
    fn enumerate(&self, tier: Tier, sink: &mut Sink) {
        // subsets ordered by size (simplest first)
        let mut masks: Vec<u32> = (0..(1u32 << FEATURES.len())).collect();
        masks.sort_by_key(|m| (m.count_ones(), *m));
        for m in &masks {
            sink.case(|| json!({"kind": "features", "mask": m, "network": 0}));
        }
        for m in &masks {
            if tier.is_thorough() || *m < 1024 {
                sink.case(|| json!({"kind": "features", "mask": m, "network": 1}));
            }
        }
        // protocol parameters without the cost model of some language, for every subset of the features that decide
        // about redeemers and script languages (the first 9)
        for config in 2..=4u8 {
            for m in 0..(1u32 << 9) {
                sink.case(|| json!({"kind": "features", "mask": m, "network": config}));
            }
        }
    }
    fn run(&self, case: &Value) -> Outcome {
        let mut o = Outcome::default();
        let mask = case["mask"].as_u64().unwrap_or(0) as u32;
        let network = case["network"].as_u64().unwrap_or(0) as u8;
        o.evals = 1;
        judge(mask, network, &mut o);
        if o.classes.contains_key("compiled") || o.classes.contains_key("compile-error-redeemer-for-cancelled-policy") {
            o.key(hash64(&(mask, network)));
        }
        o
    }
}
