//! C06 — a template closes exactly when its reported parameters and queries are supplied.
//!
//! IR level: every one- and two-level context of `gen::tirgen` around a probe (parameter, query, fees, query
//! holding a parameter) in every field of a `Tx`. Language level: every transaction of the corpus.
//! Oracle: a generic walk over the serialised TIR (knows nothing of `Composite`).

use super::c13;
use crate::common::canon::unresolved_tx as unresolved;
use crate::common::pipeline::{base_address, compiler, lower_source, PP};
use crate::common::store::MemStore;
use crate::common::tirb;
use crate::engine::{hash64, panics, Outcome, Prop, Sink, Tier, Violation};
use crate::gen::tirgen::{self, Probe, TreeId};
use serde_json::{json, Value};
use std::collections::BTreeMap;
use tx3_tir::encoding::AnyTir;
use tx3_tir::model::assets::CanonicalAssets;
use tx3_tir::model::core::{Type, Utxo, UtxoRef};
use tx3_tir::model::v1beta0 as tir;
use tx3_tir::reduce::{find_params, find_queries, Apply as _, ArgMap, ArgValue};

pub struct C06;

pub fn arg_for(ty: &Type) -> ArgValue {
    match ty {
        Type::Int => ArgValue::Int(5),
        Type::Bool => ArgValue::Bool(true),
        Type::Bytes => ArgValue::Bytes(vec![0xAA; 28]),
        Type::Address => ArgValue::Address(base_address(2, 0)),
        Type::UtxoRef => ArgValue::UtxoRef(UtxoRef { txid: vec![6; 32], index: 0 }),
        Type::Utxo => ArgValue::UtxoSet([sample_utxo(5)].into_iter().collect()),
        _ => ArgValue::Int(5),
    }
}

pub fn sample_utxo(tag: u8) -> Utxo {
    let mut u = tirb::utxo(UtxoRef { txid: vec![tag; 32], index: 0 }, &base_address(1, 0), CanonicalAssets::from_naked_amount(50_000_000));
    u.datum = Some(tir::Expression::Struct(tir::StructExpr {
        constructor: 0,
        fields: vec![tir::Expression::Number(1), tir::Expression::Bytes(vec![1, 2]), tir::Expression::List(vec![tir::Expression::Number(3), tir::Expression::Number(4)])],
    }));
    u
}

/// Judges one template; `sig_where` qualifies the signatures. Returns true when nothing was violated.
pub fn judge_tx(tx: &tir::Tx, sig_where: &str, o: &mut Outcome, detail: &Value) -> bool {
    let mut ok = true;
    let mut viol = |o: &mut Outcome, sig: String, what: String| {
        o.violate(Violation::new(sig, what).with_detail(detail.clone()));
    };
    let params = find_params(tx);
    let queries = find_queries(tx);
    let walk0 = unresolved(tx);
    // (i) everything the walk sees is reported
    for v in &walk0.values {
        if !params.contains_key(v) {
            ok = false;
            viol(o, format!("unreported|parameter|{sig_where}"), format!("ExpectValue({v}) is in the template but find_params does not report it"));
        }
    }
    for q in &walk0.inputs {
        if !queries.contains_key(q) {
            ok = false;
            viol(o, format!("unreported|query|{sig_where}"), format!("ExpectInput({q}) is in the template but find_queries does not report it"));
        }
    }
    // (ii) supplying everything reported leaves nothing unresolved
    let args: ArgMap = params.iter().map(|(k, ty)| (k.clone(), arg_for(ty))).collect();
    let inputs: BTreeMap<String, std::collections::HashSet<Utxo>> = queries
        .keys()
        .enumerate()
        .map(|(i, k)| (k.clone(), [sample_utxo(0x50 + i as u8)].into_iter().collect()))
        .collect();
    let applied = panics::catch(|| {
        let t = tx.clone().apply_args(&args)?;
        // queries can hold parameters: re-read them after the arguments went in
        let t = t.apply_fees(170_000)?;
        let t = t.apply_inputs(&inputs)?;
        Ok::<_, tx3_tir::reduce::Error>(t)
    });
    match applied {
        Err(p) => {
            o.class("apply-panic(C14)");
            let _ = p;
        }
        Ok(Err(_)) => o.class("apply-error"),
        Ok(Ok(t)) => {
            let w = unresolved(&t);
            if !w.values.is_empty() {
                ok = false;
                viol(o, format!("not-substituted|parameter|{sig_where}"), format!("after supplying every reported parameter, ExpectValue {:?} is still in the template", w.values));
            }
            if !w.inputs.is_empty() {
                ok = false;
                viol(o, format!("not-substituted|query|{sig_where}"), format!("after supplying every reported query, ExpectInput {:?} is still in the template", w.inputs));
            }
            if w.fees > 0 {
                ok = false;
                viol(o, format!("not-substituted|fees|{sig_where}"), "after supplying the fee, ExpectFees is still in the template".to_string());
            }
            match panics::catch(|| t.reduce()) {
                Ok(Ok(r)) => {
                    let w = unresolved(&r);
                    if !w.is_empty() {
                        ok = false;
                        viol(o, format!("unresolved-after-reduce|{sig_where}"), format!("reduction left unresolved nodes: {w:?}"));
                    }
                    o.class("closed-and-reduced");
                }
                Ok(Err(_)) => o.class("closed-reduce-error"),
                Err(_) => o.class("closed-reduce-panic(C14)"),
            }
        }
    }
    // (iii) leaving out a reported parameter is refused by name
    // (the argument map of a caller may carry keys the template does not use - a protocol-wide map: they must not
    // make up for the one that is missing)
    // (nor must the withheld name in another spelling: either that spelling supplies the parameter - then a whole
    // transaction comes out - or it does not, and the parameter is missing; what may not happen is that the guard
    // takes it for supplied and the substitution does not)
    for (p, mode) in params.keys().flat_map(|p| [(p, 0), (p, 1), (p, 2)]) {
        let with_extras = mode == 1;
        let other_spelling = mode == 2;
        let mut partial = args.clone();
        let withheld = partial.remove(p);
        if other_spelling {
            let up = p.to_uppercase();
            let cap: String = p.chars().enumerate().map(|(i, c)| if i == 0 { c.to_ascii_uppercase() } else { c }).collect();
            if up == *p {
                continue;
            }
            if let Some(v) = withheld {
                partial.insert(up, v.clone());
                partial.insert(cap, v);
            }
        }
        if with_extras {
            partial.insert("zz_not_used_by_the_template".into(), tx3_tir::reduce::ArgValue::Int(1));
            partial.insert("aa_not_used_either".into(), tx3_tir::reduce::ArgValue::Bytes(vec![1, 2]));
        }
        let store = MemStore::new(vec![sample_utxo(0x70)]);
        let mut comp = compiler(&PP::default());
        let res = panics::catch(|| pollster::block_on(tx3_resolver::resolve_tx(AnyTir::V1Beta0(tx.clone()), &partial, &mut comp, &store, 3)));
        o.evals += 1;
        match res {
            Ok(Err(tx3_resolver::Error::MissingTxArg { key, .. })) if &key == p => {}
            Ok(Err(tx3_resolver::Error::MissingTxArg { key, .. })) => {
                ok = false;
                viol(o, format!("missing-arg|wrong-name|{sig_where}"), format!("argument {p} withheld, error names {key}"));
            }
            Ok(Ok(_)) if other_spelling => o.class("other-spelling-accepted-as-the-parameter"),
            Ok(other) => {
                ok = false;
                let kind = match other {
                    Ok(_) => "compiled-a-partial-transaction".to_string(),
                    Err(e) => format!("other-error:{}", crate::engine::first_line(&e.to_string(), 40)),
                };
                viol(
                    o,
                    format!("missing-arg|not-refused{}|{sig_where}", if with_extras { "-with-unused-keys" } else if other_spelling { "-with-the-name-in-another-spelling" } else { "" }),
                    format!("argument {p} withheld but resolve_tx did not return MissingTxArg: {kind}"),
                );
            }
            Err(pn) => {
                ok = false;
                viol(o, format!("missing-arg|panic|{}|{sig_where}", pn.function), format!("argument {p} withheld: resolve_tx panicked: {}", pn.message));
            }
        }
    }
    ok
}

/// (iv) closing through the service boundary: a request that supplies every parameter the template holds (found by
/// the structural walk), each under exactly the spelling the template uses, must hand all of them to the template
fn judge_through_service(tx: &tir::Tx, o: &mut Outcome, detail: &Value) {
    let held = unresolved(tx).values;
    if held.is_empty() {
        return;
    }
    let types = find_params(tx);
    let mut args = serde_json::Map::new();
    for name in held.iter() {
        let v = match types.get(name).map(arg_for) {
            Some(ArgValue::Int(i)) => json!(i as i64),
            Some(ArgValue::Bool(b)) => json!(b),
            Some(ArgValue::Bytes(b)) => json!(hex::encode(b)),
            Some(ArgValue::Address(b)) => json!(hex::encode(b)),
            Some(ArgValue::UtxoRef(r)) => json!(format!("{}#{}", hex::encode(r.txid), r.index)),
            _ => json!(1),
        };
        args.insert(name.clone(), v);
    }
    let (bytes, _) = tx3_tir::encoding::to_bytes(tx);
    let doc = json!({"tir": {"content": hex::encode(&bytes), "encoding": "hex", "version": "v1beta0"}, "args": args});
    o.evals += 1;
    let Ok(req) = serde_json::from_value::<tx3_resolver::trp::ResolveParams>(doc) else { return };
    match panics::catch(|| tx3_resolver::trp::parse_resolve_request(req).map(|(_, a)| a.keys().cloned().collect::<Vec<_>>()).map_err(|e| e.to_string())) {
        Ok(Ok(got)) => {
            let lost: Vec<&String> = held.iter().filter(|h| !got.contains(h)).collect();
            if lost.is_empty() {
                o.class("service:parameters-handed-over");
            } else {
                o.class("service:parameters-lost");
                o.violate(
                    Violation::new("service|supplied-parameter-not-handed-over|language-level", format!("the template holds {held:?}, all were supplied under those names, the argument map lacks {lost:?}"))
                        .with_detail(detail.clone()),
                );
            }
        }
        Ok(Err(_)) => o.class("service:request-refused"),
        Err(_) => o.class("service:panic(C16)"),
    }
}

fn ctx_label(i: Option<usize>) -> &'static str {
    let cs = tirgen::contexts();
    i.map(|x| cs[x].label).unwrap_or("-")
}

fn run_tree(id: &TreeId) -> Outcome {
    let mut o = Outcome::default();
    o.evals = 1;
    // attribute a violation to the smallest sub-tree that already shows it
    let quiet = |sub: TreeId| {
        let mut tmp = Outcome::default();
        judge_tx(&tirgen::build_tree(&sub), "x", &mut tmp, &Value::Null)
    };
    let whole_where = match (id.outer, id.inner) {
        (None, None) => format!("placement:{}", tirgen::PLACEMENTS[id.placement]),
        (None, Some(i)) => {
            if quiet(TreeId { inner: None, ..*id }) {
                format!("in:{}", ctx_label(Some(i)))
            } else {
                format!("placement:{}", tirgen::PLACEMENTS[id.placement])
            }
        }
        (Some(out), inner) => {
            let bare = quiet(TreeId { outer: None, inner: None, ..*id });
            let inner_alone = quiet(TreeId { outer: None, inner, ..*id });
            let outer_alone = quiet(TreeId { outer: None, inner: Some(out), ..*id });
            if !bare {
                format!("placement:{}", tirgen::PLACEMENTS[id.placement])
            } else if !inner_alone {
                format!("in:{}", ctx_label(inner))
            } else if !outer_alone {
                format!("in:{}", ctx_label(Some(out)))
            } else {
                format!("in:{}>{}", ctx_label(Some(out)), ctx_label(inner))
            }
        }
    };
    let detail = json!({"tree": tirgen::describe(id)});
    let tx = tirgen::build_tree(id);
    judge_tx(&tx, &format!("{:?}|{whole_where}", id.probe), &mut o, &detail);
    o.key(hash64(&tirgen::describe(id)));
    o
}

const PROBES: [Probe; 4] = [Probe::Value, Probe::Query, Probe::Fees, Probe::QueryWithValue];

fn probe_ix(p: Probe) -> usize {
    PROBES.iter().position(|x| *x == p).unwrap_or(0)
}

impl Prop for C06 {
    fn id(&self) -> &'static str {
        "C06"
    }
    fn rule(&self, _tier: Tier) -> String {
        format!(
            "IR level (complete): {} one-level contexts (every Expression / BuiltInOp / CompilerOp / Coerce / Param / InputQuery / AssetExpr / \
             AdHocDirective variant x child slot) and all {} two-level nestings, around each of 4 probes (parameter, query, fees, query holding a \
             parameter), placed in each of {} Tx fields. Language level: every tx of the corpus (examples + feature bases) and of the spelling generator (<= 1 deviation), also through parse_resolve_request with every held parameter supplied under the template's own spelling. Oracle: (i) every \
             ExpectValue / ExpectInput found by a generic walk of the serialised TIR is in find_params / find_queries; (ii) after apply_args (all \
             reported), apply_fees, apply_inputs (all reported) the walk finds no Expect* node, and none after reduce when reduce succeeds; (iii) \
             resolve_tx with one reported parameter withheld (also beside unused keys, and beside the same name in upper / capitalised spelling) returns MissingTxArg naming it. Non-trivial = the tree contains a probe and was judged; \
             distinct = distinct trees / programs.",
            tirgen::contexts().len(),
            tirgen::contexts().len().pow(2),
            tirgen::PLACEMENTS.len()
        )
    }
    fn assumptions(&self) -> Vec<String> {
        vec![
            "ill-typed trees whose application or reduction errs are counted, not judged for clause (ii)".into(),
            "trees deeper than two contexts around the probe are not covered".into(),
        ]
    }
    fn bound(&self, _tier: Tier) -> String {
        "all contexts to depth 2 x 4 probes x 19 placements; corpus programs".into()
    }

    fn enumerate(&self, tier: Tier, sink: &mut Sink) {
        let n = tirgen::contexts().len();
        let np = tirgen::PLACEMENTS.len();
        for probe in PROBES {
            for placement in 0..np {
                sink.case(|| json!({"kind": "ir-depth0", "probe": probe_ix(probe), "placement": placement}));
            }
        }
        for probe in PROBES {
            for placement in 0..np {
                for i in 0..n {
                    sink.case(|| json!({"kind": "ir-depth1", "probe": probe_ix(probe), "placement": placement, "inner": i}));
                }
            }
        }
        for (name, src) in c13::corpus(tier) {
            sink.case(|| json!({"kind": "program", "file": name, "src": src}));
        }
        // identifier spellings (parameters, parties, env fields in lower / Capital / camelCase / UPPER / with_9)
        let mut gen = |c: &mut crate::engine::dbx::Chooser| super::c17::gen_program_pub(c);
        crate::engine::dbx::explore(1, &mut gen, &mut |choices, _d, src| {
            sink.case(|| json!({"kind": "program", "file": format!("spelling-{choices:?}"), "src": src}));
        });
        for probe in PROBES {
            for placement in 0..np {
                for outer in 0..n {
                    for inner in 0..n {
                        sink.case(|| json!({"kind": "ir-depth2", "probe": probe_ix(probe), "placement": placement, "inner": inner, "outer": outer}));
                    }
                }
            }
        }
    }

    fn run(&self, case: &Value) -> Outcome {
        let kind = case["kind"].as_str().unwrap_or("");
        if kind == "program" {
            let mut o = Outcome::default();
            let src = case["src"].as_str().unwrap_or("");
            match panics::catch(|| lower_source(src)) {
                Ok(Ok(txs)) => {
                    for (name, tx) in txs {
                        o.evals += 1;
                        let detail = json!({"file": case["file"], "tx": name});
                        judge_tx(&tx, "language-level", &mut o, &detail);
                        judge_through_service(&tx, &mut o, &detail);
                        o.key(hash64(&(src, name)));
                    }
                }
                _ => o.class("corpus-program-not-lowerable"),
            }
            return o;
        }
        let id = TreeId {
            outer: case["outer"].as_u64().map(|x| x as usize),
            inner: case["inner"].as_u64().map(|x| x as usize),
            probe: PROBES[case["probe"].as_u64().unwrap_or(0) as usize],
            placement: case["placement"].as_u64().unwrap_or(0) as usize,
        };
        run_tree(&id)
    }
}
