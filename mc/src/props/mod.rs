use crate::engine::Prop;

pub mod c01;
pub mod c02;
pub mod c03;
pub mod c04;
pub mod c05;
pub mod c06;
pub mod c07;
pub mod c08;
pub mod c09;
pub mod c10;
pub mod c11;
pub mod c12;
pub mod c13;
pub mod c14;
pub mod c15;
pub mod c16;
pub mod c17;
pub mod c18;
pub mod c19;
pub mod c20;

pub const ALL: &[&str] = &["C01", "C02", "C03", "C04", "C05", "C06", "C07", "C08", "C09", "C10", "C11", "C12", "C13", "C14", "C15", "C16", "C17", "C18", "C19", "C20"];

pub fn get(id: &str) -> Option<Box<dyn Prop>> {
    match id {
        "C01" => Some(Box::new(c01::C01)),
        "C02" => Some(Box::new(c02::C02)),
        "C03" => Some(Box::new(c03::C03)),
        "C04" => Some(Box::new(c04::C04)),
        "C05" => Some(Box::new(c05::C05)),
        "C06" => Some(Box::new(c06::C06)),
        "C07" => Some(Box::new(c07::C07)),
        "C08" => Some(Box::new(c08::C08)),
        "C09" => Some(Box::new(c09::C09)),
        "C10" => Some(Box::new(c10::C10)),
        "C11" => Some(Box::new(c11::C11)),
        "C12" => Some(Box::new(c12::C12)),
        "C13" => Some(Box::new(c13::C13)),
        "C14" => Some(Box::new(c14::C14)),
        "C15" => Some(Box::new(c15::C15)),
        "C16" => Some(Box::new(c16::C16)),
        "C17" => Some(Box::new(c17::C17)),
        "C18" => Some(Box::new(c18::C18)),
        "C19" => Some(Box::new(c19::C19)),
        "C20" => Some(Box::new(c20::C20)),
        _ => None,
    }
}
