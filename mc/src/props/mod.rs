use crate::engine::Prop;

pub mod c15;

pub const ALL: &[&str] = &["C15"];

pub fn get(id: &str) -> Option<Box<dyn Prop>> {
    match id {
        "C15" => Some(Box::new(c15::C15)),
        _ => None,
    }
}
