//! C05 — the fee written in the body is the fee reported and covers the final size.
//!
//! Rounds of the resolve loop are transitions of a small deterministic system (fee -> transaction -> fee).
//! For every protocol-parameter configuration of a grid and every template / store pair the orbit of that
//! map is followed with a re-implementation of one round from public API (every transition executes the
//! real apply / reduce / resolve / compile), and `resolve_tx` itself is called: whatever it returns must be
//! a fixed point whose body fee equals the reported fee equals coefficient * |payload| + constant + margin,
//! and must balance against the store.

use crate::common::pipeline::{base_address, compiler, lower_source, PP};
use crate::common::store::MemStore;
use crate::common::{tirb, txdecode};
use crate::engine::{hash64, panics, Outcome, Prop, Sink, Tier, Violation};
use serde_json::{json, Value};
use std::collections::BTreeMap;
use tx3_cardano::Compiler;
use tx3_tir::compile::{CompiledTx, Compiler as _};
use tx3_tir::encoding::AnyTir;
use tx3_tir::model::assets::CanonicalAssets;
use tx3_tir::model::core::{Utxo, UtxoRef};
use tx3_tir::model::v1beta0 as tir;
use tx3_tir::reduce::{Apply as _, ArgMap, ArgValue};
use tx3_tir::Node as _;

pub struct C05;

pub const MAX_ROUNDS_ARG: usize = 10;
const DEFAULT_MARGIN: u64 = 200_000;

pub struct Scenario {
    pub name: &'static str,
    pub src: String,
    pub args: ArgMap,
    pub utxos: Vec<Utxo>,
}

fn addr_s() -> Vec<u8> {
    base_address(1, 0)
}

fn coin(tag: u8, ix: u32, lovelace: i128) -> Utxo {
    tirb::utxo(UtxoRef { txid: vec![tag; 32], index: ix }, &addr_s(), CanonicalAssets::from_naked_amount(lovelace))
}

pub fn scenarios() -> Vec<Scenario> {
    let mut args: ArgMap = BTreeMap::new();
    args.insert("s".into(), ArgValue::Address(addr_s()));
    args.insert("r".into(), ArgValue::Address(base_address(2, 0)));
    args.insert("q".into(), ArgValue::Int(2_000_000));
    let head = "party S;\nparty R;\n";
    let transfer = format!("{head}tx t(q: Int) {{\n    input src {{ from: S, min_amount: Ada(q) + fees, }}\n    output {{ to: R, amount: Ada(q), }}\n    output {{ to: S, amount: src - Ada(q) - fees, }}\n}}\n");
    let fees_threshold = format!("{head}tx t(q: Int) {{\n    input src {{ from: S, min_amount: fees, }}\n    output {{ to: S, amount: src - fees, }}\n}}\n");
    let many = format!("{head}tx t(q: Int) {{\n    input* src {{ from: S, min_amount: fees, }}\n    output {{ to: S, amount: src - fees, }}\n}}\n");
    let many_q = format!("{head}tx t(q: Int) {{\n    input* src {{ from: S, min_amount: Ada(q) + fees, }}\n    output {{ to: R, amount: Ada(q), }}\n    output {{ to: S, amount: src - Ada(q) - fees, }}\n}}\n");
    let min_utxo = format!(
        "{head}tx t(q: Int) {{\n    input src {{ from: S, min_amount: fees + min_utxo(small) + min_utxo(change), }}\n    output small {{ to: R, amount: min_utxo(small), }}\n    output change {{ to: S, amount: src - fees - min_utxo(small), }}\n}}\n"
    );
    let min_utxo_many = format!(
        "{head}tx t(q: Int) {{\n    input* src {{ from: S, min_amount: fees + min_utxo(small), }}\n    output small {{ to: R, amount: min_utxo(small), }}\n    output change {{ to: S, amount: src - fees - min_utxo(small), }}\n}}\n"
    );
    let token = format!(
        "{head}tx t(q: Int) {{\n    input src {{ from: S, min_amount: AnyAsset(0x{p}, \"TK\", 3) + fees, }}\n    output {{ to: R, amount: AnyAsset(0x{p}, \"TK\", 3) + Ada(q), }}\n    output {{ to: S, amount: src - AnyAsset(0x{p}, \"TK\", 3) - Ada(q) - fees, }}\n}}\n",
        p = hex::encode([0x44u8; 28])
    );
    // a payload beyond 65535 bytes (a 70 000-byte inline datum): the fee is linear in the whole length
    let large = format!("{head}tx t(q: Int, blob: Bytes) {{\n    input src {{ from: S, min_amount: Ada(q) + fees, }}\n    output {{ to: R, amount: Ada(q), datum: blob, }}\n    output {{ to: S, amount: src - Ada(q) - fees, }}\n}}\n");
    let mut large_args = args.clone();
    large_args.insert("blob".into(), ArgValue::Bytes(vec![0x5a; 70_000]));
    let ample = vec![coin(0x31, 0, 80_000_000)];
    let ladder: Vec<Utxo> = (0..12).map(|i| coin(0x40 + i as u8, i, 60_000 + 9_000 * i as i128)).collect();
    let tiny: Vec<Utxo> = (0..14).map(|i| coin(0x60 + i as u8, i, 100 + 37 * i as i128)).collect();
    let mid: Vec<Utxo> = (0..8).map(|i| coin(0x70 + i as u8, i, 700_000 + 250_000 * i as i128)).collect();
    let mut with_token = coin(0x32, 1, 50_000_000);
    with_token.assets = with_token.assets.clone() + CanonicalAssets::from_defined_asset(&[0x44; 28], b"TK", 10);
    let mut small_q = args.clone();
    small_q.insert("q".into(), ArgValue::Int(1_000));
    vec![
        Scenario { name: "transfer/ample", src: transfer.clone(), args: args.clone(), utxos: ample.clone() },
        Scenario { name: "transfer/tight", src: transfer.clone(), args: args.clone(), utxos: vec![coin(0x33, 0, 3_200_000)] },
        Scenario { name: "transfer/several", src: transfer.clone(), args: args.clone(), utxos: mid.clone() },
        Scenario { name: "fees-threshold/ample", src: fees_threshold.clone(), args: args.clone(), utxos: ample.clone() },
        Scenario { name: "fees-threshold/ladder", src: fees_threshold.clone(), args: args.clone(), utxos: ladder.clone() },
        Scenario { name: "fees-threshold/several", src: fees_threshold.clone(), args: args.clone(), utxos: mid.clone() },
        Scenario { name: "many/ladder", src: many.clone(), args: args.clone(), utxos: ladder.clone() },
        Scenario { name: "many/tiny", src: many.clone(), args: args.clone(), utxos: tiny.clone() },
        Scenario { name: "many/several", src: many.clone(), args: args.clone(), utxos: mid.clone() },
        Scenario { name: "many-transfer/several", src: many_q.clone(), args: small_q.clone(), utxos: mid.clone() },
        Scenario { name: "min-utxo/ample", src: min_utxo.clone(), args: args.clone(), utxos: ample.clone() },
        Scenario { name: "min-utxo/several", src: min_utxo.clone(), args: args.clone(), utxos: mid.clone() },
        Scenario { name: "min-utxo-many/several", src: min_utxo_many.clone(), args: args.clone(), utxos: mid.clone() },
        Scenario { name: "token-change/ample", src: token, args: args.clone(), utxos: vec![with_token] },
        Scenario { name: "transfer-70000-byte-datum/huge", src: large, args: large_args, utxos: vec![coin(0x34, 0, 500_000_000_000)] },
    ]
}

fn store_for(sc: &Scenario) -> MemStore {
    let st = MemStore::new(sc.utxos.clone());
    // candidate sets are always handed out in ascending position order: the orbit is then a function of
    // the configuration alone
    *st.order_plan.lock().unwrap() = vec![0; 256];
    st
}

/// one round of the loop, from public API only
fn pass(tx: &AnyTir, comp: &mut Compiler, st: &MemStore, fee: u64) -> Result<CompiledTx, String> {
    let attempt = tx.clone().apply_fees(fee).map_err(|e| format!("apply_fees:{e}"))?;
    let attempt = attempt.apply(comp).map_err(|e| format!("compiler-ops:{e}"))?;
    let attempt = attempt.reduce().map_err(|e| format!("reduce:{e}"))?;
    let attempt = pollster::block_on(tx3_resolver::inputs::resolve(attempt, st)).map_err(|e| format!("inputs:{}", super::c03::err_kind(&e)))?;
    let attempt = attempt.reduce().map_err(|e| format!("reduce:{e}"))?;
    if !attempt.is_constant() {
        return Err("not-constant".into());
    }
    comp.compile(&attempt).map_err(|e| format!("compile:{e}"))
}

fn margin(pp: &PP) -> u64 {
    pp.extra_fees.unwrap_or(DEFAULT_MARGIN)
}

fn what_oscillates(a: &CompiledTx, b: &CompiledTx) -> &'static str {
    let (Ok(ra), Ok(rb)) = (txdecode::decode_tx(&a.payload), txdecode::decode_tx(&b.payload)) else { return "undecodable" };
    if ra.inputs != rb.inputs {
        "selection"
    } else if a.payload.len() != b.payload.len() {
        "encoding-width"
    } else {
        "amounts"
    }
}

fn judge(sc: &Scenario, tx: &tir::Tx, pp: &PP, o: &mut Outcome) {
    let detail = json!({"scenario": sc.name, "pparams": {"coefficient": pp.coefficient, "constant": pp.constant, "extra_fees": pp.extra_fees, "coins_per_utxo_byte": pp.coins_per_utxo_byte}});
    let with_args = match AnyTir::V1Beta0(tx.clone()).apply_args(&sc.args) {
        Ok(t) => t,
        Err(_) => return,
    };
    // ---- the orbit of the fee map ----
    let st = store_for(sc);
    let mut comp = compiler(pp);
    let mut orbit: Vec<CompiledTx> = vec![];
    let mut fee = 0u64;
    let mut kind = "no-fixed-point-in-32-rounds".to_string();
    for round in 0..32 {
        o.count("transitions", 1);
        match panics::catch(|| pass(&with_args, &mut comp, &st, fee)) {
            Err(p) => {
                kind = format!("panic:{}", p.function);
                break;
            }
            Ok(Err(e)) => {
                kind = format!("round-error:{}", e.split(':').next().unwrap_or("?"));
                let _ = round;
                break;
            }
            Ok(Ok(ev)) => {
                if let Some(prev) = orbit.iter().rposition(|x| *x == ev) {
                    let period = orbit.len() - prev;
                    kind = if period == 1 { "fixed-point".into() } else { format!("cycle-{period}") };
                    orbit.push(ev);
                    break;
                }
                fee = ev.fee;
                orbit.push(ev);
            }
        }
    }
    o.count("states", orbit.len() as u64);
    o.max("max_orbit_length", orbit.len() as u64);
    o.class(format!("orbit:{kind}"));

    // ---- the loop itself ----
    let st2 = store_for(sc);
    let mut comp2 = compiler(pp);
    o.evals += 1;
    let res = panics::catch(|| pollster::block_on(tx3_resolver::resolve_tx(AnyTir::V1Beta0(tx.clone()), &sc.args, &mut comp2, &st2, MAX_ROUNDS_ARG)));
    let out = match res {
        Err(p) => {
            o.class("resolve:panic(C14)");
            let _ = p;
            return;
        }
        Ok(Err(e)) => {
            o.class(format!("resolve:err:{}", super::c03::err_kind(&e)));
            return;
        }
        Ok(Ok(t)) => t,
    };
    o.class("resolve:ok");
    let osc = if orbit.len() >= 2 { what_oscillates(&orbit[orbit.len() - 1], &orbit[orbit.len() - 2]) } else { "-" };
    let qual = format!("{}|{osc}", if kind.starts_with("cycle") || kind.starts_with("no-fixed") { kind.as_str() } else { "converging" });
    let mut viol = |o: &mut Outcome, sig: String, what: String| o.violate(Violation::new(sig, what).with_detail(detail.clone()));
    let rec = match txdecode::decode_tx(&out.payload) {
        Ok(r) => r,
        Err(e) => {
            viol(o, "fee|payload-undecodable".into(), e);
            return;
        }
    };
    let formula = pp.coefficient.wrapping_mul(out.payload.len() as u64).wrapping_add(pp.constant).wrapping_add(margin(pp));
    if rec.fee != out.fee {
        viol(
            o,
            format!("fee|body-fee-differs-from-reported|{qual}"),
            format!("body fee {} but reported fee {} (payload {} bytes, orbit {kind})", rec.fee, out.fee, out.payload.len()),
        );
    }
    if out.fee != formula {
        viol(
            o,
            format!("fee|reported-fee-is-not-the-linear-fee|{qual}"),
            format!("reported fee {} but coefficient*len+constant+margin = {formula}", out.fee),
        );
    }
    // fixed point: one more round from the returned transaction reproduces it
    // (the compiler that ran the loop holds the body of the returned transaction, as a continuation would)
    o.count("transitions", 1);
    match pass(&with_args, &mut comp2, &st2, out.fee) {
        Ok(again) => {
            if again.payload != out.payload || again.fee != out.fee {
                viol(
                    o,
                    format!("fee|returned-transaction-is-not-a-fixed-point|{qual}"),
                    format!("one more round from the returned transaction gives fee {} / {} bytes instead of fee {} / {} bytes", again.fee, again.payload.len(), out.fee, out.payload.len()),
                );
            }
        }
        Err(e) => viol(o, format!("fee|next-round-fails|{qual}"), format!("one more round from the returned transaction fails: {e}")),
    }
    // a deposit written as `min_utxo(small)` is the deposit of `small` as it stands in the returned transaction
    // ((160 + its encoded length) x coins per byte): at a fixed point the round that sized it saw this very output
    if sc.name.starts_with("min-utxo") {
        if let Some(small) = rec.outputs.first() {
            let want = (160 + small.raw_len as u128) * pp.coins_per_utxo_byte as u128;
            if small.lovelace as u128 != want {
                viol(
                    o,
                    format!("fee|min_utxo-not-sized-from-the-returned-transaction|{qual}"),
                    format!("output `small` holds {} lovelace; encoded in {} bytes its deposit is {want}", small.lovelace, small.raw_len),
                );
            }
        }
    }
    // every fee-dependent amount was computed with that fee: the transaction balances against the store
    let mut consumed: i128 = 0;
    for (txid, ix) in &rec.inputs {
        if let Some(u) = sc.utxos.iter().find(|u| u.r#ref.txid == *txid && u.r#ref.index as u64 == *ix) {
            consumed += u.assets.naked_amount().unwrap_or(0);
        }
    }
    let produced: i128 = rec.outputs.iter().map(|x| x.lovelace as i128).sum::<i128>() + rec.fee as i128;
    if consumed != produced {
        viol(
            o,
            format!("fee|amounts-not-computed-with-the-body-fee|{qual}"),
            format!("inputs hold {consumed} lovelace, outputs + body fee = {produced}"),
        );
    }
}

fn coefficients(tier: Tier) -> Vec<u64> {
    if tier.is_thorough() {
        (0..=1000).collect()
    } else {
        (0..=64).chain([100, 255, 256, 440, 999, 1000]).collect()
    }
}

const CONSTANTS: [u64; 10] = [0, 1, 23, 24, 255, 256, 65_535, 65_536, 155_381, 1_000_000];

fn window_constants() -> Vec<u64> {
    (0..=300).chain(65_400..=65_700).chain((1u64 << 32) - 300..=(1u64 << 32) + 300).collect()
}

impl Prop for C05 {
    fn id(&self) -> &'static str {
        "C05"
    }
    fn level(&self) -> &'static str {
        "model_checking"
    }
    fn rule(&self, tier: Tier) -> String {
        format!(
            "rounds of the resolve loop as transitions (each executes the real apply_fees / compiler ops / reduce / inputs::resolve / compile): for every \
             configuration of the grid coefficient in {} x constant in {:?} x extra_fees in {{None, 0, 7}} x coins_per_utxo_byte in {{1, 4310}}, plus \
             width windows (coefficient 0/1, margin 0, constant through [0,300], [65400,65700], [2^32-300, 2^32+300]; for the min_utxo scenarios coins_per_utxo_byte through [250, 360] + {{1, 2, 4310, 65535, 65536}}, where a deposit changes its encoded width between rounds), and every one of {} template / store \
             scenarios (fees in change, in min_amount, input* whose selection grows with the fee, one and two min_utxo, token change, a payload of 70 000 bytes; ample / tight / \
             several / ladder / tiny stores) the orbit of fee -> transaction -> fee is followed to a fixed point, a cycle or 32 rounds, and resolve_tx is \
             called: its result must have body fee = reported fee = coefficient*|payload| + constant + margin, be reproduced by one more round, hold in `small` exactly the deposit of `small` as encoded in the returned transaction, and \
             balance against the store. Candidate sets are handed out in a fixed order so that orbits are functions of the configuration.",
            if tier.is_thorough() { "0..=1000".to_string() } else { "0..=64 + {100,255,256,440,999,1000}".to_string() },
            CONSTANTS,
            scenarios().len()
        )
    }
    fn assumptions(&self) -> Vec<String> {
        vec![
            "max_optimize_rounds = 10 as the caller's budget".into(),
            "stores and templates outside the 15 scenarios are not covered; selection tie-breaks are fixed by handing candidates out in one order".into(),
        ]
    }
    fn bound(&self, tier: Tier) -> String {
        format!("{} coefficients x 10 constants x 3 margins x 2 utxo costs x 15 scenarios; orbits to 32 rounds", coefficients(tier).len())
    }
    fn enumerate(&self, tier: Tier, sink: &mut Sink) {
        let n = scenarios().len();
        for c in coefficients(tier) {
            for s in 0..n {
                sink.case(|| json!({"kind": "grid", "scenario": s, "coefficient": c}));
            }
        }
        for c in [0u64, 1] {
            for s in 0..n {
                sink.case(|| json!({"kind": "width-window", "scenario": s, "coefficient": c}));
            }
        }
        // the cost per byte through the window in which a deposit sized from the placeholder of the first round and
        // one sized from the real output differ in their encoded width (197 c < 2^16 <= 225 c), and around it
        for c in [0u64, 44] {
            for (s, sc) in scenarios().iter().enumerate() {
                if sc.name.starts_with("min-utxo") {
                    sink.case(|| json!({"kind": "utxo-cost-window", "scenario": s, "coefficient": c}));
                }
            }
        }
    }
    fn run(&self, case: &Value) -> Outcome {
        let mut o = Outcome::default();
        let all = scenarios();
        let Some(sc) = all.get(case["scenario"].as_u64().unwrap_or(0) as usize) else { return o };
        let tx = lower_source(&sc.src).expect("scenario lowers").remove("t").expect("tx t");
        let coefficient = case["coefficient"].as_u64().unwrap_or(0);
        if case["kind"] == "grid" {
            for constant in CONSTANTS {
                for extra in [None, Some(0), Some(7)] {
                    for cpb in [1u64, 4310] {
                        let pp = PP { coefficient, constant, extra_fees: extra, coins_per_utxo_byte: cpb, ..PP::default() };
                        judge(sc, &tx, &pp, &mut o);
                        o.key(hash64(&(sc.name, coefficient, constant, extra, cpb)));
                    }
                }
            }
        } else if case["kind"] == "utxo-cost-window" {
            for cpb in (250u64..=360).chain([1, 2, 4310, 65_535, 65_536]) {
                let pp = PP { coefficient, constant: 155_381, extra_fees: Some(0), coins_per_utxo_byte: cpb, ..PP::default() };
                judge(sc, &tx, &pp, &mut o);
                o.key(hash64(&(sc.name, coefficient, cpb, "utxo-cost")));
            }
        } else {
            for constant in window_constants() {
                let pp = PP { coefficient, constant, extra_fees: Some(0), coins_per_utxo_byte: 1, ..PP::default() };
                judge(sc, &tx, &pp, &mut o);
                o.key(hash64(&(sc.name, coefficient, constant, "window")));
            }
        }
        o
    }
}
