//! C16 — JSON arguments are coerced faithfully and safely at the service boundary.
//!
//! A strict codec pair (encoder + decoder written from the documented encodings, sharing no code with
//! interop.rs: own hex, base64, bech32) decides what a text denotes. Inversion: every value x every
//! encoding. Rejection: every single-character edit of every valid encoding and every JSON kind against
//! every type: `from_json` must agree with the strict decoder in both directions and never panic.
//! Requests: all splits of the declared parameters between `args` and `env`, undeclared extras, envelope
//! corruptions.

use crate::common::pipeline::{base_address, enterprise_address, stake_address};
use crate::common::{boundary_ints, tirb};
use crate::engine::{hash64, panics, Outcome, Prop, Sink, Tier, Violation};
use serde_json::{json, Value};
use tx3_resolver::interop::from_json;
use tx3_resolver::trp::{parse_resolve_request, ResolveParams};
use tx3_tir::model::core::{Type, UtxoRef};
use tx3_tir::reduce::ArgValue;

pub struct C16;

// ---------------- strict codec ----------------

fn hex_enc(b: &[u8], upper: bool) -> String {
    b.iter().map(|x| if upper { format!("{x:02X}") } else { format!("{x:02x}") }).collect()
}

fn hex_dec(s: &str) -> Option<Vec<u8>> {
    if s.len() % 2 != 0 || !s.bytes().all(|c| c.is_ascii_hexdigit()) {
        return None;
    }
    Some((0..s.len()).step_by(2).map(|i| u8::from_str_radix(&s[i..i + 2], 16).unwrap()).collect())
}

const B64: &[u8; 64] = b"ABCDEFGHIJKLMNOPQRSTUVWXYZabcdefghijklmnopqrstuvwxyz0123456789+/";

fn b64_enc(b: &[u8]) -> String {
    let mut out = String::new();
    for chunk in b.chunks(3) {
        let n = (chunk[0] as u32) << 16 | (*chunk.get(1).unwrap_or(&0) as u32) << 8 | *chunk.get(2).unwrap_or(&0) as u32;
        out.push(B64[(n >> 18) as usize & 63] as char);
        out.push(B64[(n >> 12) as usize & 63] as char);
        out.push(if chunk.len() > 1 { B64[(n >> 6) as usize & 63] as char } else { '=' });
        out.push(if chunk.len() > 2 { B64[n as usize & 63] as char } else { '=' });
    }
    out
}

fn b64_dec(s: &str) -> Option<Vec<u8>> {
    let b = s.as_bytes();
    if b.len() % 4 != 0 {
        return None;
    }
    let mut out = vec![];
    for (ci, chunk) in b.chunks(4).enumerate() {
        let last = ci == b.len() / 4 - 1;
        let pad = chunk.iter().rev().take_while(|c| **c == b'=').count();
        if pad > 2 || (pad > 0 && !last) {
            return None;
        }
        let mut n = 0u32;
        for (i, c) in chunk.iter().enumerate() {
            let v = if i >= 4 - pad { 0 } else { B64.iter().position(|x| x == c)? as u32 };
            n = n << 6 | v;
        }
        // canonical padding bits
        if pad == 1 && n & 0xff != 0 || pad == 2 && n & 0xffff != 0 {
            return None;
        }
        out.push((n >> 16) as u8);
        if pad < 2 {
            out.push((n >> 8) as u8);
        }
        if pad < 1 {
            out.push(n as u8);
        }
    }
    Some(out)
}

const BECH: &[u8; 32] = b"qpzry9x8gf2tvdw0s3jn54khce6mua7l";

fn polymod(values: &[u8]) -> u32 {
    let gen = [0x3b6a57b2u32, 0x26508e6d, 0x1ea119fa, 0x3d4233dd, 0x2a1462b3];
    let mut chk = 1u32;
    for v in values {
        let b = chk >> 25;
        chk = (chk & 0x1ffffff) << 5 ^ *v as u32;
        for (i, g) in gen.iter().enumerate() {
            if (b >> i) & 1 == 1 {
                chk ^= g;
            }
        }
    }
    chk
}

fn hrp_expand(hrp: &str) -> Vec<u8> {
    let mut v: Vec<u8> = hrp.bytes().map(|c| c >> 5).collect();
    v.push(0);
    v.extend(hrp.bytes().map(|c| c & 31));
    v
}

pub fn bech32_enc(hrp: &str, data: &[u8]) -> String {
    // 8 -> 5 bit groups
    let mut acc = 0u32;
    let mut bits = 0;
    let mut five = vec![];
    for b in data {
        acc = acc << 8 | *b as u32;
        bits += 8;
        while bits >= 5 {
            bits -= 5;
            five.push((acc >> bits) as u8 & 31);
        }
    }
    if bits > 0 {
        five.push((acc << (5 - bits)) as u8 & 31);
    }
    let mut values = hrp_expand(hrp);
    values.extend(&five);
    values.extend([0u8; 6]);
    let pm = polymod(&values) ^ 1;
    let mut out = format!("{hrp}1");
    for v in &five {
        out.push(BECH[*v as usize] as char);
    }
    for i in 0..6 {
        out.push(BECH[(pm >> (5 * (5 - i))) as usize & 31] as char);
    }
    out
}

fn bech32_dec(s: &str) -> Option<Vec<u8>> {
    if s.bytes().any(|c| !(33..=126).contains(&c)) {
        return None;
    }
    let has_lower = s.bytes().any(|c| c.is_ascii_lowercase());
    let has_upper = s.bytes().any(|c| c.is_ascii_uppercase());
    if has_lower && has_upper {
        return None;
    }
    let s = s.to_ascii_lowercase();
    let pos = s.rfind('1')?;
    if pos == 0 || pos + 7 > s.len() {
        return None;
    }
    let hrp = &s[..pos];
    let mut five = vec![];
    for c in s[pos + 1..].bytes() {
        five.push(BECH.iter().position(|x| *x == c)? as u8);
    }
    let mut values = hrp_expand(hrp);
    values.extend(&five);
    if polymod(&values) != 1 {
        return None;
    }
    let five = &five[..five.len() - 6];
    let mut acc = 0u32;
    let mut bits = 0;
    let mut out = vec![];
    for v in five {
        acc = acc << 5 | *v as u32;
        bits += 5;
        if bits >= 8 {
            bits -= 8;
            out.push((acc >> bits) as u8);
        }
    }
    if bits >= 5 || (acc & ((1 << bits) - 1)) != 0 {
        return None;
    }
    Some(out)
}

fn hex_text(s: &str) -> Option<Vec<u8>> {
    hex_dec(s.strip_prefix("0x").unwrap_or(s))
}

/// what a JSON value denotes for a declared type according to the documented encodings (None = ill-formed)
pub fn strict_decode(v: &Value, ty: &Type) -> Option<String> {
    let show = |a: ArgValue| Some(format!("{a:?}"));
    match ty {
        Type::Int => match v {
            Value::Number(n) => {
                if let Some(i) = n.as_i64() {
                    show(ArgValue::Int(i as i128))
                } else {
                    n.as_u64().and_then(|u| show(ArgValue::Int(u as i128)))
                }
            }
            Value::String(s) => {
                if let Some(h) = s.strip_prefix("0x") {
                    let b = hex_dec(h)?;
                    let b: [u8; 16] = b.try_into().ok()?;
                    show(ArgValue::Int(i128::from_be_bytes(b)))
                } else {
                    let digits = s.strip_prefix('-').or_else(|| s.strip_prefix('+')).unwrap_or(s);
                    if digits.is_empty() || !digits.bytes().all(|c| c.is_ascii_digit()) {
                        return None;
                    }
                    s.parse::<i128>().ok().and_then(|i| show(ArgValue::Int(i)))
                }
            }
            _ => None,
        },
        Type::Bool => match v {
            Value::Bool(b) => show(ArgValue::Bool(*b)),
            Value::Number(n) if n.as_u64() == Some(0) => show(ArgValue::Bool(false)),
            Value::Number(n) if n.as_u64() == Some(1) => show(ArgValue::Bool(true)),
            Value::String(s) if s == "true" => show(ArgValue::Bool(true)),
            Value::String(s) if s == "false" => show(ArgValue::Bool(false)),
            _ => None,
        },
        Type::Bytes => match v {
            Value::String(s) => hex_text(s).and_then(|b| show(ArgValue::Bytes(b))),
            Value::Object(o) => {
                let content = ["content", "bytecode", "payload"].iter().filter_map(|k| o.get(*k)).collect::<Vec<_>>();
                let enc = ["contentType", "encoding"].iter().filter_map(|k| o.get(*k)).collect::<Vec<_>>();
                if content.len() != 1 || enc.len() != 1 {
                    return None;
                }
                let content = content[0].as_str()?;
                match enc[0].as_str()? {
                    "hex" => hex_text(content).and_then(|b| show(ArgValue::Bytes(b))),
                    "base64" => b64_dec(content).and_then(|b| show(ArgValue::Bytes(b))),
                    _ => None,
                }
            }
            _ => None,
        },
        Type::Address => match v {
            Value::String(s) => bech32_dec(s).or_else(|| hex_text(s)).and_then(|b| show(ArgValue::Address(b))),
            _ => None,
        },
        Type::UtxoRef => match v {
            Value::String(s) => {
                let (t, i) = s.split_once('#')?;
                let txid = hex_dec(t)?;
                if i.is_empty() || !i.bytes().all(|c| c.is_ascii_digit()) {
                    return None;
                }
                let index: u32 = i.parse().ok()?;
                show(ArgValue::UtxoRef(UtxoRef { txid, index }))
            }
            _ => None,
        },
        _ => None,
    }
}

fn type_name(t: &Type) -> &'static str {
    match t {
        Type::Int => "Int",
        Type::Bool => "Bool",
        Type::Bytes => "Bytes",
        Type::Address => "Address",
        Type::UtxoRef => "UtxoRef",
        _ => "other",
    }
}

const TYPES: [Type; 5] = [Type::Int, Type::Bool, Type::Bytes, Type::Address, Type::UtxoRef];

/// compares the implementation with the strict decoder on one (json, type)
fn judge(v: &Value, ty: &Type, family: &str, o: &mut Outcome) {
    o.evals += 1;
    let spec = strict_decode(v, ty);
    let got = panics::catch(|| from_json(v.clone(), ty).map(|a| format!("{a:?}")).map_err(|e| e.to_string()));
    let shown = {
        let s = v.to_string();
        crate::engine::first_line(&s, 160)
    };
    let tn = type_name(ty);
    match (got, spec) {
        (Err(p), _) => {
            o.class("panic");
            o.violate(Violation::new(format!("from_json-{}|{tn}", p.signature()), format!("from_json({shown}, {tn}) panicked: {}", p.message)));
        }
        (Ok(Ok(g)), Some(s)) => {
            if g == s {
                o.class(format!("{family}:decoded-as-specified"));
            } else {
                o.class(format!("{family}:decoded-differently"));
                o.violate(Violation::new(
                    format!("wrong-value|{tn}|{family}"),
                    format!("from_json({shown}, {tn}) = {}, the encoding denotes {}", crate::engine::first_line(&g, 80), crate::engine::first_line(&s, 80)),
                ));
            }
        }
        (Ok(Ok(g)), None) => {
            o.class(format!("{family}:accepted-ill-formed"));
            let why = match (ty, v) {
                (_, Value::String(s)) if s.starts_with("0x0x") => "repeated-0x-prefix",
                (Type::Int, Value::String(s)) if s.starts_with("0x") => "hex-int-not-16-bytes",
                (Type::Bool, _) => "bool",
                (_, Value::Object(_)) => "envelope",
                (Type::UtxoRef, _) => "utxo-ref",
                (Type::Address, _) => "address",
                _ => "other",
            };
            o.violate(Violation::new(
                format!("accepts-ill-formed|{tn}|{why}"),
                format!("from_json({shown}, {tn}) = Ok({}) although the text is not a documented encoding", crate::engine::first_line(&g, 80)),
            ));
        }
        (Ok(Err(e)), Some(s)) => {
            o.class(format!("{family}:rejected-valid"));
            let how = match v {
                Value::Number(_) => "json-number",
                Value::Bool(_) => "json-bool",
                Value::Object(_) => "envelope",
                Value::String(x) if x.starts_with("0x") => "0x-string",
                Value::String(_) => "string",
                _ => "other",
            };
            o.violate(Violation::new(
                format!("rejects-valid|{tn}|{how}"),
                format!("from_json({shown}, {tn}) = Err({}) although the text encodes {}", crate::engine::first_line(&e, 80), crate::engine::first_line(&s, 80)),
            ));
        }
        (Ok(Err(_)), None) => o.class(format!("{family}:rejected-ill-formed")),
    }
}

fn int_hex(n: i128, upper: bool) -> String {
    format!("0x{}", hex_enc(&n.to_be_bytes(), upper))
}

/// every documented encoding of sample values, per type
fn valid_encodings(tier: Tier) -> Vec<(Type, Value)> {
    let mut out: Vec<(Type, Value)> = vec![];
    for n in boundary_ints() {
        if let Ok(i) = i64::try_from(n) {
            out.push((Type::Int, json!(i)));
        } else if let Ok(u) = u64::try_from(n) {
            out.push((Type::Int, json!(u)));
        }
        out.push((Type::Int, json!(n.to_string())));
        out.push((Type::Int, json!(int_hex(n, false))));
        out.push((Type::Int, json!(int_hex(n, true))));
    }
    for v in [json!(true), json!(false), json!(0), json!(1), json!("true"), json!("false")] {
        out.push((Type::Bool, v));
    }
    let maxlen = if tier.is_thorough() { 40 } else { 33 };
    let mut samples: Vec<Vec<u8>> = (0..=maxlen).map(|len| (0..len).map(|i| (i * 37 + 11) as u8).collect()).collect();
    // values whose text in one encoding looks like another encoding: base64 "0x012345", "0X01", "abcd" (all hex
    // digits), "0x" alone; hex text that is also valid base64; leading and trailing zero bytes
    samples.extend([
        vec![0xd3, 0x1d, 0x35, 0xdb, 0x7e, 0x39],
        vec![0xd1, 0x7d, 0x35],
        vec![0x69, 0xb7, 0x1d],
        vec![0xd3, 0x1d],
        vec![0x00],
        vec![0x00, 0x00, 0x01, 0x00],
        vec![0xff; 3],
    ]);
    for b in samples {
        for upper in [false, true] {
            out.push((Type::Bytes, json!(hex_enc(&b, upper))));
            out.push((Type::Bytes, json!(format!("0x{}", hex_enc(&b, upper)))));
            out.push((Type::Bytes, json!({"content": hex_enc(&b, upper), "contentType": "hex"})));
        }
        out.push((Type::Bytes, json!({"content": b64_enc(&b), "contentType": "base64"})));
        out.push((Type::Bytes, json!({"payload": b64_enc(&b), "encoding": "base64"})));
        out.push((Type::Bytes, json!({"bytecode": hex_enc(&b, false), "encoding": "hex"})));
    }
    for net in 0..2u8 {
        for (kind, a) in [("addr", base_address(3, net)), ("addr", enterprise_address(3, net)), ("stake", stake_address(3, net))] {
            let hrp = format!("{kind}{}", if net == 0 { "_test" } else { "" });
            out.push((Type::Address, json!(bech32_enc(&hrp, &a))));
            out.push((Type::Address, json!(hex_enc(&a, false))));
            out.push((Type::Address, json!(format!("0x{}", hex_enc(&a, true)))));
        }
    }
    for tl in [1usize, 32] {
        for ix in [0u32, 1, u32::MAX] {
            out.push((Type::UtxoRef, json!(format!("{}#{ix}", hex_enc(&vec![0xC3; tl], false)))));
        }
    }
    out
}

fn json_kinds() -> Vec<Value> {
    vec![
        Value::Null,
        json!(true),
        json!(0),
        json!(1),
        json!(2),
        json!(-1),
        json!(1.5),
        json!(1e30),
        json!(18446744073709551615u64),
        json!(""),
        json!("0x"),
        json!("0x0x00"),
        json!("0x0x00000000000000000000000000000001"),
        json!("#"),
        json!("#0"),
        json!("ab#"),
        json!("zz"),
        json!("0xzz"),
        json!("+5"),
        json!(" 5"),
        json!("5 "),
        json!("1e3"),
        json!("TRUE"),
        json!("addr1"),
        json!("ab#4294967296"),
        json!("ab#-1"),
        json!([]),
        json!([1]),
        json!({}),
        json!({"content": "00"}),
        json!({"content": "00", "contentType": "Hex"}),
        json!({"content": "zz", "contentType": "hex"}),
        json!({"content": "!!!!", "contentType": "base64"}),
        json!({"content": "AA=", "contentType": "base64"}),
        json!({"content": 7, "contentType": "hex"}),
        json!({"contentType": "hex"}),
        json!({"content": "a€", "contentType": "hex"}),
        json!({"content": "€", "contentType": "hex"}),
        json!({"content": "é=", "contentType": "base64"}),
        json!("€"),
        json!("1é"),
        json!("0€ff"),
    ]
}

// the last three are 2, 3 and 4 bytes wide: a decoder that cuts its input at byte offsets meets them at every position
const EDIT_CHARS: [char; 10] = ['g', 'x', '0', '#', '-', ' ', '"', 'é', '€', '😀'];

fn single_edits(s: &str) -> Vec<String> {
    let chars: Vec<char> = s.chars().collect();
    let mut out = vec![];
    for i in 0..=chars.len() {
        if i < chars.len() {
            let mut d = chars.clone();
            d.remove(i);
            out.push(d.iter().collect());
        }
        for c in EDIT_CHARS {
            let mut d = chars.clone();
            d.insert(i, c);
            out.push(d.iter().collect());
            if i < chars.len() && chars[i] != c {
                let mut d = chars.clone();
                d[i] = c;
                out.push(d.iter().collect());
            }
        }
    }
    out
}

// ---------------- requests ----------------

fn request_tir(nparams: usize) -> (tx3_tir::model::v1beta0::Tx, Vec<(String, Type)>) {
    use tx3_tir::model::v1beta0 as tir;
    let decl: Vec<(String, Type)> = [("alpha", Type::Int), ("beta", Type::Bytes), ("gamma", Type::Address)]
        .iter()
        .take(nparams)
        .map(|(n, t)| (n.to_string(), t.clone()))
        .collect();
    let mut tx = tirb::empty_tx();
    tx.fees = tirb::assets(vec![tirb::lovelace(1)]);
    for (n, t) in &decl {
        tx.metadata.push(tir::Metadata { key: tir::Expression::Number(1), value: tirb::param(n, t.clone()) });
    }
    (tx, decl)
}

fn sample_json(t: &Type, variant: usize) -> Value {
    match t {
        Type::Int => [json!(7), json!("-12"), json!(int_hex(300, false))][variant % 3].clone(),
        Type::Bytes => [json!("abcd"), json!({"content": "q80=", "contentType": "base64"})][variant % 2].clone(),
        _ => json!(hex_enc(&base_address(5, 0), false)),
    }
}

fn judge_request(nparams: usize, split: u32, extras: bool, corruption: usize, both_ways: bool, o: &mut Outcome) {
    let (tx, decl) = request_tir(nparams);
    let (bytes, _) = tx3_tir::encoding::to_bytes(&tx);
    let mut args = serde_json::Map::new();
    let mut env = serde_json::Map::new();
    let mut expected: Vec<(String, String)> = vec![];
    for (i, (n, t)) in decl.iter().enumerate() {
        let v = sample_json(t, i + split as usize);
        let in_env = split & (1 << i) != 0;
        if in_env {
            env.insert(n.clone(), v.clone());
        } else {
            args.insert(n.clone(), v.clone());
        }
        if let Some(s) = strict_decode(&v, t) {
            expected.push((n.clone(), s));
        }
    }
    // a parameter supplied both ways: the explicit argument is the one that counts, the env value is a well-formed
    // other value (so that taking it instead shows)
    if both_ways {
        if let Some((n, t)) = decl.first() {
            let explicit = sample_json(t, 0);
            let other = match t {
                Type::Int => json!(991),
                Type::Bytes => json!("ffee"),
                _ => json!(hex_enc(&base_address(6, 0), false)),
            };
            args.insert(n.clone(), explicit.clone());
            env.insert(n.clone(), other);
            expected.retain(|(k, _)| k != n);
            if let Some(s) = strict_decode(&explicit, t) {
                expected.push((n.clone(), s));
            }
        }
    }
    if extras {
        args.insert("undeclared".into(), json!(5));
        env.insert("also_undeclared".into(), json!("zz"));
    }
    let hexed = hex_enc(&bytes, false);
    let (content, encoding, version, expect_ok): (Value, Value, Value, bool) = match corruption {
        0 => (json!(hexed), json!("hex"), json!("v1beta0"), true),
        1 => (json!(b64_enc(&bytes)), json!("base64"), json!("v1beta0"), true),
        2 => (json!(format!("0x{hexed}")), json!("hex"), json!("v1beta0"), true),
        3 => (json!("zz"), json!("hex"), json!("v1beta0"), false),
        4 => (json!(format!("{hexed}0")), json!("hex"), json!("v1beta0"), false),
        5 => (json!("!!!"), json!("base64"), json!("v1beta0"), false),
        6 => (json!(hexed), json!("base64"), json!("v1beta0"), false),
        7 => (json!(hexed), json!("hex"), json!("v1alpha8"), false),
        8 => (json!(hexed), json!("hex"), json!(""), false),
        9 => (json!(hexed[..hexed.len() / 2 * 2 - 2].to_string()), json!("hex"), json!("v1beta0"), false),
        10 => (json!(""), json!("hex"), json!("v1beta0"), false),
        11 => (json!(hex_enc(&[0x81; 600], false)), json!("hex"), json!("v1beta0"), false),
        12 => (json!("a€"), json!("hex"), json!("v1beta0"), false),
        13 => (json!("€"), json!("hex"), json!("v1beta0"), false),
        14 => (json!(format!("0é{hexed}")), json!("hex"), json!("v1beta0"), false),
        15 => (json!("😀ff"), json!("base64"), json!("v1beta0"), false),
        16 => (json!(format!("{}é", &hexed[..hexed.len() - 1])), json!("hex"), json!("v1beta0"), false),
        // version names an error message might quote: long, with wide characters around byte 32
        17 => (json!(hexed), json!("hex"), json!(format!("{}{}", "x".repeat(31), "é".repeat(8))), false),
        18 => (json!(hexed), json!("hex"), json!("€".repeat(30)), false),
        19 => (json!(hexed), json!("hex"), json!(format!("{}{}", "x".repeat(30), "😀".repeat(4))), false),
        // payloads nested far deeper than any template (well-shaped all the way down, and below an unknown key)
        20 => (json!(hex_enc(&super::c11::bomb("valid-list-nesting", 300), false)), json!("hex"), json!("v1beta0"), false),
        21 => (json!(hex_enc(&super::c11::bomb("valid-list-nesting", 200_000), false)), json!("hex"), json!("v1beta0"), false),
        22 => (json!(hex_enc(&super::c11::bomb("valid-negate-nesting", 100_000), false)), json!("hex"), json!("v1beta0"), false),
        _ => (json!(b64_enc(&super::c11::bomb("unknown-key", 300_000))), json!("base64"), json!("v1beta0"), false),
    };
    let doc = json!({"tir": {"content": content, "encoding": encoding, "version": version}, "args": args, "env": if split == 0 && !extras && !both_ways { Value::Null } else { Value::Object(env.clone()) }});
    o.evals += 1;
    let parsed: Result<ResolveParams, _> = serde_json::from_value(doc.clone());
    let Ok(req) = parsed else {
        o.class("request:not-a-request-document");
        return;
    };
    let res = panics::catch(|| parse_resolve_request(req).map(|(_, a)| a.iter().map(|(k, v)| (k.clone(), format!("{v:?}"))).collect::<Vec<_>>()).map_err(|e| e.to_string()));
    let where_ = format!("split={split:b} extras={extras} corruption={corruption} both_ways={both_ways}");
    match res {
        Err(p) => {
            o.class("request:panic");
            o.violate(Violation::new(format!("request-{}", p.signature()), format!("parse_resolve_request panicked ({where_}): {}", p.message)).with_detail(doc));
        }
        Ok(Err(_)) => {
            if expect_ok {
                o.class("request:valid-refused");
                o.violate(Violation::new("request|valid-refused", format!("a well-formed request was refused ({where_})")).with_detail(doc));
            } else {
                o.class("request:corrupt-refused");
            }
        }
        Ok(Ok(mut got)) => {
            if !expect_ok {
                o.class("request:corrupt-accepted");
                o.violate(Violation::new(format!("request|corrupt-envelope-accepted|{corruption}"), format!("corrupted envelope accepted ({where_})")).with_detail(doc));
                return;
            }
            got.sort();
            let mut exp = expected.clone();
            exp.sort();
            if got == exp {
                o.class("request:args-as-declared");
            } else {
                o.class("request:args-differ");
                let lost_env = exp.iter().filter(|(k, _)| env.contains_key(k)).any(|e| !got.contains(e));
                let sig = if lost_env { "request|env-parameters-not-handed-over" } else { "request|argument-map-differs" };
                o.violate(Violation::new(sig, format!("argument map {got:?}, expected {exp:?} ({where_})")).with_detail(doc));
            }
        }
    }
}

/// A request for a template that holds one value parameter in some position of some block (every one-level IR
/// context x every placement): the parameters the template holds are found by an independent walk of its structure,
/// each is supplied, and the argument map handed over must name exactly those.
fn judge_request_position(placement: usize, inner: Option<usize>, o: &mut Outcome) {
    use crate::gen::tirgen::{self, Probe, TreeId};
    let id = TreeId { outer: None, inner, probe: Probe::Value, placement };
    let tx = tirgen::build_tree(&id);
    let held = crate::common::canon::unresolved_tx(&tx).values;
    if held.is_empty() {
        o.class("position:no-parameter");
        return;
    }
    // types: what the walk cannot tell is taken from the generator (the probe's type is the hole's)
    let reported = tx3_tir::reduce::find_params(&tx);
    let mut args = serde_json::Map::new();
    for name in held.iter() {
        let v = match reported.get(name) {
            Some(Type::Int) | None => json!(7),
            Some(Type::Bool) => json!(true),
            Some(Type::UtxoRef) => json!(format!("{}#1", hex_enc(&[7u8; 32], false))),
            Some(Type::Address) => json!(hex_enc(&base_address(5, 0), false)),
            Some(_) => json!("abcd"),
        };
        args.insert(name.clone(), v);
    }
    let (bytes, _) = tx3_tir::encoding::to_bytes(&tx);
    let doc = json!({"tir": {"content": hex_enc(&bytes, false), "encoding": "hex", "version": "v1beta0"}, "args": args});
    o.evals += 1;
    let Ok(req) = serde_json::from_value::<ResolveParams>(doc.clone()) else {
        o.class("position:not-a-request-document");
        return;
    };
    let desc = tirgen::describe(&id);
    match panics::catch(|| parse_resolve_request(req).map(|(_, a)| a.keys().cloned().collect::<Vec<_>>()).map_err(|e| e.to_string())) {
        Err(p) => {
            o.class("position:panic");
            o.violate(Violation::new(format!("request-{}", p.signature()), format!("parse_resolve_request panicked for {desc}: {}", p.message)).with_detail(doc));
        }
        Ok(Err(e)) => {
            // a value of the wrong shape for an ill-typed tree is refused: not this check's matter
            o.class("position:refused");
            let _ = e;
        }
        Ok(Ok(mut got)) => {
            got.sort();
            if got == held {
                o.class("position:parameters-handed-over");
            } else {
                o.class("position:parameters-lost");
                let ctx = desc.split("in:").nth(1).unwrap_or(&desc).to_string();
                o.violate(
                    Violation::new(
                        format!("request|supplied-parameter-not-handed-over|{}", crate::engine::first_line(&ctx, 60)),
                        format!("{desc}: the template holds {held:?}, all were supplied, the argument map names {got:?}"),
                    )
                    .with_detail(doc),
                );
            }
        }
    }
}

/// Names are matched as written: a template may declare `quantity`, `Quantity` or `QUANTITY` (lowering writes the
/// first, a client's own IR any of them), a request may supply any subset of the three spellings, each under `args` or
/// `env`, each with its own value. The argument map handed over holds the declared spelling with the value supplied
/// under exactly that spelling, or nothing.
fn judge_key_spelling(declared: usize, supplied: u32, in_env: u32, o: &mut Outcome) {
    use tx3_tir::model::v1beta0 as tir;
    const SPELLINGS: [&str; 3] = ["quantity", "Quantity", "QUANTITY"];
    let mut tx = tirb::empty_tx();
    tx.fees = tirb::assets(vec![tirb::lovelace(1)]);
    tx.metadata.push(tir::Metadata { key: tir::Expression::Number(1), value: tirb::param(SPELLINGS[declared], Type::Int) });
    let (bytes, _) = tx3_tir::encoding::to_bytes(&tx);
    let mut args = serde_json::Map::new();
    let mut env = serde_json::Map::new();
    for (i, name) in SPELLINGS.iter().enumerate() {
        if supplied & (1 << i) != 0 {
            if in_env & (1 << i) != 0 { &mut env } else { &mut args }.insert(name.to_string(), json!(10 + i));
        }
    }
    let expected: Vec<(String, String)> = if supplied & (1 << declared) != 0 { vec![(SPELLINGS[declared].to_string(), format!("Int({})", 10 + declared))] } else { vec![] };
    let doc = json!({"tir": {"content": hex_enc(&bytes, false), "encoding": "hex", "version": "v1beta0"}, "args": args, "env": env});
    o.evals += 1;
    let Ok(req) = serde_json::from_value::<ResolveParams>(doc.clone()) else {
        o.class("spelling:not-a-request-document");
        return;
    };
    match panics::catch(|| parse_resolve_request(req).map(|(_, a)| a.iter().map(|(k, v)| (k.clone(), format!("{v:?}"))).collect::<Vec<_>>()).map_err(|e| e.to_string())) {
        Err(p) => o.violate(Violation::new(format!("request-{}|spelling", p.signature()), p.message.clone()).with_detail(doc)),
        Ok(Err(e)) => {
            o.class("spelling:refused");
            o.violate(Violation::new("request|well-formed-request-refused|key-spelling", format!("declared {}, supplied well-formed integers: {e}", SPELLINGS[declared])).with_detail(doc));
        }
        Ok(Ok(mut got)) => {
            got.sort();
            if got == expected {
                o.class("spelling:declared-subset");
            } else {
                o.class("spelling:differs");
                o.violate(
                    Violation::new(
                        "request|argument-map-is-not-the-declared-subset|key-spelling",
                        format!("the template declares {}, the request supplies {:?}: the argument map is {got:?}, expected {expected:?}", SPELLINGS[declared], doc["args"].as_object().into_iter().chain(doc["env"].as_object()).flat_map(|m| m.keys().cloned()).collect::<Vec<_>>()),
                    )
                    .with_detail(doc),
                );
            }
        }
    }
}

impl Prop for C16 {
    fn id(&self) -> &'static str {
        "C16"
    }
    fn rule(&self, _tier: Tier) -> String {
        "inversion: every boundary integer as JSON number / decimal string / 0x + 32 hex digits (lower and upper case), all 6 boolean spellings, byte \
         strings of every length 0..33 (thorough 40) as hex / 0xhex / hex envelope / base64 envelope (with the alias keys), 6 addresses as bech32 and \
         hex, utxo refs with txid length {1,32} x index {0,1,2^32-1}; rejection: every single-character edit (delete, insert / substitute one of \
         g x 0 # - space \" and the 2-, 3- and 4-byte characters é € 😀) at every position of every valid string encoding, and 42 JSON values of every kind, each against all 5 types; \
         requests: 0..3 declared parameters x all 2^n splits between args and env x undeclared extras x 24 envelope variants (multi-byte content, version names with wide characters around byte 32, payloads nested 300 .. 300 000 deep), and a parameter supplied both as argument and in env (the argument counts); a template declaring quantity / Quantity / QUANTITY x every non-empty subset of the three spellings supplied x args / env (names match as written); \
         a request for every template that holds one value parameter in one position (every one-level IR context x 19 placements; the parameters held are found by an independent structural walk). Oracle: a strict \
         decoder written from the documented encodings (own hex, base64, bech32): from_json returns Ok(v) iff the text denotes v; requests yield \
         exactly the declared subset. Non-trivial = from_json / parse_resolve_request was executed and compared; distinct = (json text, type)."
            .into()
    }
    fn assumptions(&self) -> Vec<String> {
        vec![
            "documented encodings as listed in the property; a decimal string may carry a sign; hex may carry one 0x prefix; bech32 (not bech32m) with any prefix".into(),
            "multi-character corruptions are only covered through the JSON-kind list".into(),
        ]
    }
    fn bound(&self, _tier: Tier) -> String {
        "all single-character edits of all sample encodings; all arg/env splits of <= 3 parameters".into()
    }

    fn enumerate(&self, tier: Tier, sink: &mut Sink) {
        let enc = valid_encodings(tier);
        sink.case(|| json!({"kind": "inversion"}));
        sink.case(|| json!({"kind": "json-kinds"}));
        for (ty, v) in enc.iter() {
            if let Some(text) = v.as_str() {
                sink.case(|| json!({"kind": "edits", "type": type_name(ty), "text": text}));
            }
        }
        for placement in 0..crate::gen::tirgen::PLACEMENTS.len() {
            sink.case(|| json!({"kind": "request-positions", "placement": placement}));
        }
        for declared in 0..3usize {
            sink.case(|| json!({"kind": "key-spelling", "declared": declared}));
        }
        for n in 0..=3usize {
            for split in 0..(1u32 << n) {
                for extras in [false, true] {
                    sink.case(|| json!({"kind": "requests", "params": n, "split": split, "extras": extras}));
                }
            }
        }
    }

    fn run(&self, case: &Value) -> Outcome {
        let mut o = Outcome::default();
        // the property runs in the tier-independent part; the sample list is rebuilt (deterministic)
        let tier = Tier::Thorough;
        match case["kind"].as_str().unwrap_or("") {
            "inversion" => {
                for (ty, v) in valid_encodings(tier) {
                    judge(&v, &ty, "valid", &mut o);
                    o.key(hash64(&(v.to_string(), type_name(&ty))));
                }
            }
            "json-kinds" => {
                for v in json_kinds() {
                    for ty in TYPES.iter() {
                        judge(&v, ty, "kind", &mut o);
                        o.key(hash64(&(v.to_string(), type_name(ty))));
                    }
                }
                // target types the boundary does not support must be refused, not panic
                for ty in [Type::Unit, Type::List, Type::Map, Type::AnyAsset, Type::Utxo, Type::Custom("X".into()), Type::Undefined] {
                    for v in [json!(1), json!("ab"), json!(true), Value::Null] {
                        o.evals += 1;
                        if let Err(p) = panics::catch(|| from_json(v.clone(), &ty).is_ok()) {
                            o.violate(Violation::new(format!("from_json-{}|unsupported-type", p.signature()), p.message.clone()));
                        }
                    }
                }
            }
            "edits" => {
                let Some(ty) = TYPES.iter().find(|t| type_name(t) == case["type"].as_str().unwrap_or("")) else { return o };
                let s = case["text"].as_str().unwrap_or("");
                for e in single_edits(s) {
                    let ev = json!(e);
                    judge(&ev, ty, "edit", &mut o);
                    o.key(hash64(&(e, type_name(ty))));
                }
            }
            "request-positions" => {
                let placement = case["placement"].as_u64().unwrap_or(0) as usize;
                judge_request_position(placement, None, &mut o);
                for inner in 0..crate::gen::tirgen::contexts().len() {
                    judge_request_position(placement, Some(inner), &mut o);
                }
                o.key(hash64(&("positions", placement)));
            }
            "key-spelling" => {
                let declared = case["declared"].as_u64().unwrap_or(0) as usize;
                for supplied in 1..8u32 {
                    for in_env in 0..8u32 {
                        if in_env & !supplied != 0 {
                            continue;
                        }
                        judge_key_spelling(declared, supplied, in_env, &mut o);
                        o.key(hash64(&("spelling", declared, supplied, in_env)));
                    }
                }
            }
            "requests" => {
                let n = case["params"].as_u64().unwrap_or(0) as usize;
                let split = case["split"].as_u64().unwrap_or(0) as u32;
                let extras = case["extras"].as_bool().unwrap_or(false);
                for corruption in 0..24 {
                    judge_request(n, split, extras, corruption, false, &mut o);
                    o.key(hash64(&(n, split, extras, corruption)));
                }
                if n > 0 {
                    for corruption in 0..3 {
                        judge_request(n, split, extras, corruption, true, &mut o);
                        o.key(hash64(&(n, split, extras, corruption, "both")));
                    }
                }
            }
            _ => {}
        }
        o
    }
}

#[cfg(test)]
mod tests {
    use super::*;
    #[test]
    fn codecs() {
        assert_eq!(b64_dec(&b64_enc(b"hello")).unwrap(), b"hello");
        assert_eq!(b64_enc(b"a"), "YQ==");
        let a = base_address(3, 1);
        let s = bech32_enc("addr", &a);
        assert_eq!(bech32_dec(&s).unwrap(), a);
        assert_eq!(bech32_enc("a", &[]), "a12uel5l");
    }
}
