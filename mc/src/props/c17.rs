//! C17 — the published interface (TII) agrees with the IR it ships.
//!
//! Programs (corpus + a spelling generator: identifier case for parameters, parties, env fields, unused
//! parameters / env fields, names that collide after lower-casing; <= 2 deviations) are compiled by the real
//! `tx3c build --emit tii` binary; the emitted file is read back and compared with in-process lowering.

use super::c06::arg_for;
use super::c13;
use crate::common::canon::canon_tx as canon_tir;
use crate::common::pipeline::{compiler, PP};
use crate::common::store::MemStore;
use crate::engine::dbx::{self, Chooser};
use crate::engine::{hash64, panics, Outcome, Prop, Sink, Tier, Violation};
use serde_json::{json, Value};
use std::collections::BTreeSet;
use tx3_tir::encoding::{from_bytes, AnyTir, TirVersion};
use tx3_tir::reduce::{find_params, Apply as _};

pub struct C17;

pub const TX3C: &str = "/verif/target-repo/release/tx3c";

const SPELL: [&str; 5] = ["lower", "Capital", "camelCase", "UPPER", "with_9"];

fn spell(base: &str, s: usize) -> String {
    match SPELL[s] {
        "lower" => base.to_lowercase(),
        "Capital" => {
            let mut c = base.to_lowercase();
            c[..1].make_ascii_uppercase();
            c
        }
        "camelCase" => format!("{}Value", base.to_lowercase()),
        "UPPER" => base.to_uppercase(),
        _ => format!("{}_9", base.to_lowercase()),
    }
}

fn gen_program(c: &mut Chooser) -> String {
    let a1 = spell("quantity", c.choose(5));
    let a2 = spell("memo", c.choose(5));
    let p1 = spell("sender", [1usize, 0, 2, 3, 4][c.choose(5)]);
    let p2 = spell("receiver", [1usize, 0, 2, 3, 4][c.choose(5)]);
    let e1 = spell("limit", c.choose(5));
    let e2 = spell("tag", c.choose(5));
    // 0: no third param, 1: unused param, 2: used param, 3: collides with a1 after lower-casing,
    // 4: collides with the party p1, 5: collides with the env field e1 (collisions across kinds of declared keys)
    let third = c.choose(6);
    let env_used = c.choose(3); // 0: e1 used, 1: none used, 2: both used
    let with_policy = c.flag();
    let other_case = |x: &str| if x == x.to_lowercase() { x.to_uppercase() } else { x.to_lowercase() };
    let a3 = match third {
        3 => other_case(&a1),
        4 => other_case(&p1),
        5 => other_case(&e1),
        _ => "extra".to_string(),
    };
    // a second party / env field that differs from the first only in case
    let p2 = if c.flag() { other_case(&p1) } else { p2 };
    let e2 = if c.flag() { other_case(&e1) } else { e2 };
    // keys whose only use sits in a block of its own: 0 none, 1 a party that only signs, 2 a parameter that only
    // bounds the validity interval, 3 a parameter that only names a reference input
    // 4.. : a parameter whose only use is a metadata key, a map key in a datum, a list item in a datum, an input's
    // redeemer, a mint amount, a burn amount, the collateral threshold, a withdrawal amount, a second input's ref
    let lone = c.choose(13);
    // the input block's name in each spelling (the name under which its UTxOs are asked for and supplied)
    let src = spell("source", c.choose(5));
    let mut s = String::new();
    s.push_str(&format!("env {{\n    {e1}: Int,\n    {e2}: Bytes,\n}}\n"));
    s.push_str(&format!("party {p1};\nparty {p2};\n"));
    if lone == 1 {
        s.push_str("party Operator;\n");
    }
    if with_policy {
        s.push_str("policy Minting = 0xABCDEF1234ABCDEF1234ABCDEF1234ABCDEF1234ABCDEF1234ABCDEF1234;\n");
    }
    let params = match third {
        0 => format!("{a1}: Int, {a2}: Bytes"),
        _ => format!("{a1}: Int, {a2}: Bytes, {a3}: Int"),
    };
    let params = match lone {
        2 => format!("{params}, Deadline: Int"),
        3 => format!("{params}, Oracle: UtxoRef"),
        4 => format!("{params}, Label: Int"),
        5 => format!("{params}, SlotId: Int"),
        6 => format!("{params}, Item: Int"),
        7 => format!("{params}, Action: Int"),
        8 => format!("{params}, Minted: Int"),
        9 => format!("{params}, Burned: Int"),
        10 => format!("{params}, Pledge: Int"),
        11 => format!("{params}, Reward: Int"),
        12 => format!("{params}, Pinned: UtxoRef"),
        _ => params,
    };
    s.push_str(&format!("tx transfer({params}) {{\n"));
    match lone {
        1 => s.push_str("    signers {\n        Operator,\n    }\n"),
        2 => s.push_str("    validity {\n        until_slot: Deadline,\n    }\n"),
        3 => s.push_str("    reference feed {\n        ref: Oracle,\n    }\n"),
        8 => s.push_str("    mint {\n        amount: AnyAsset(0xABCDEF1234ABCDEF1234ABCDEF1234ABCDEF1234ABCDEF1234ABCDEF1234, \"M\", Minted),\n        redeemer: (),\n    }\n"),
        9 => s.push_str("    burn {\n        amount: AnyAsset(0xABCDEF1234ABCDEF1234ABCDEF1234ABCDEF1234ABCDEF1234ABCDEF1234, \"B\", Burned),\n        redeemer: (),\n    }\n"),
        10 => s.push_str(&format!("    collateral {{\n        from: {p1},\n        min_amount: Ada(Pledge),\n    }}\n")),
        11 => s.push_str(&format!("    cardano::withdrawal {{\n        from: {p1},\n        amount: Reward,\n        redeemer: (),\n    }}\n")),
        12 => s.push_str("    input pinned {\n        ref: Pinned,\n    }\n"),
        _ => {}
    }
    let redeemer = if lone == 7 { "        redeemer: Action,\n" } else { "" };
    s.push_str(&format!("    input {src} {{\n        from: {p1},\n        min_amount: Ada({a1}),\n{redeemer}    }}\n"));
    if with_policy {
        s.push_str("    mint {\n        amount: AnyAsset(Minting, \"T\", 1),\n        redeemer: (),\n    }\n");
    }
    let datum = match lone {
        5 => "        datum: { SlotId: 1, 7: 2, },\n",
        6 => "        datum: [1, Item, 3],\n",
        _ => "",
    };
    s.push_str(&format!("    output {{\n        to: {p2},\n        amount: Ada({a1}),\n{datum}    }}\n"));
    s.push_str(&format!("    output {{\n        to: {p1},\n        amount: {src} - Ada({a1}) - fees,\n    }}\n"));
    let mut meta = vec![format!("        1: {a2},")];
    if lone == 4 {
        meta.push("        Label: \"labelled\",".to_string());
    }
    if env_used != 1 {
        meta.push(format!("        2: {e1},"));
    }
    if env_used == 2 {
        meta.push(format!("        3: {e2},"));
    }
    if third >= 2 {
        meta.push(format!("        4: {a3},"));
    }
    s.push_str(&format!("    metadata {{\n{}\n    }}\n", meta.join("\n")));
    s.push_str("}\n");
    // a second transaction: 0 none, 1 under another name, 2 under the same name with another parameter,
    // 3 under a name that differs only in case
    let second = c.choose(4);
    if second > 0 {
        let name = ["", "refund", "transfer", "Transfer"][second];
        s.push_str(&format!(
            "tx {name}(amount: Int) {{\n    input source {{\n        from: {p2},\n        min_amount: Ada(amount),\n    }}\n    output {{\n        to: {p1},\n        amount: source - fees,\n    }}\n}}\n"
        ));
    }
    s
}

fn scratch_dir() -> std::path::PathBuf {
    let d = std::path::PathBuf::from(format!("/verif/target/scratch/c17-{}", std::process::id()));
    let _ = std::fs::create_dir_all(&d);
    d
}

pub fn run_tx3c(src: &str, tag: &str) -> Result<Vec<u8>, String> {
    run_tx3c_with(src, tag, &[])
}

/// writes a file into this process's scratch directory and returns its path
pub fn scratch_file(name: &str, content: &str) -> String {
    let p = scratch_dir().join(name);
    let _ = std::fs::write(&p, content);
    p.to_string_lossy().to_string()
}

pub fn run_tx3c_with(src: &str, tag: &str, extra: &[String]) -> Result<Vec<u8>, String> {
    run_tx3c_over(src, tag, extra, None)
}

/// like `run_tx3c_with`; `existing` = what the output path holds before the build (a previous, longer interface file)
pub fn run_tx3c_over(src: &str, tag: &str, extra: &[String], existing: Option<&[u8]>) -> Result<Vec<u8>, String> {
    if !std::path::Path::new(TX3C).exists() {
        panic!("harness: {TX3C} is missing (run ./check --build)");
    }
    let dir = scratch_dir();
    let src_path = dir.join(format!("{tag}.tx3"));
    let out_path = dir.join(format!("{tag}.tii"));
    let _ = std::fs::remove_file(&out_path);
    if let Some(bytes) = existing {
        std::fs::write(&out_path, bytes).map_err(|e| e.to_string())?;
    }
    std::fs::write(&src_path, src).map_err(|e| e.to_string())?;
    let out = std::process::Command::new(TX3C)
        .arg("build")
        .arg(&src_path)
        .arg("--emit")
        .arg("tii")
        .arg("-o")
        .arg(&out_path)
        .args(extra)
        .output()
        .map_err(|e| format!("cannot run tx3c: {e}"))?;
    let res = if out.status.success() {
        std::fs::read(&out_path).map_err(|e| format!("tx3c succeeded but wrote no file: {e}"))
    } else {
        Err(format!(
            "tx3c exited with {:?}: {}",
            out.status.code(),
            crate::engine::first_line(&String::from_utf8_lossy(&out.stderr), 200)
        ))
    };
    let _ = std::fs::remove_file(&src_path);
    let _ = std::fs::remove_file(&out_path);
    res
}

/// The compiler reads the file it is given: the same program under a name that does not end in `.tx3`, beside a file
/// of the same stem that does (another, valid program), must give the same interface as under its usual name.
pub fn judge_other_extension(src: &str, usual: &[u8], o: &mut Outcome, detail: &Value) {
    if !std::path::Path::new(TX3C).exists() {
        panic!("harness: {TX3C} is missing (run ./check --build)");
    }
    let dir = scratch_dir();
    let decoy = "party Payer;\nparty Payee;\ntx decoy(amount: Int) {\n    input funds {\n        from: Payer,\n        min_amount: Ada(amount) + fees,\n    }\n    output {\n        to: Payee,\n        amount: Ada(amount),\n    }\n    output {\n        to: Payer,\n        amount: funds - Ada(amount) - fees,\n    }\n}\n";
    for ext in ["draft", "tx3.orig", "v2"] {
        let given = dir.join(format!("x.{ext}"));
        let sibling = dir.join("x.tx3");
        let out_path = dir.join("x.tii");
        let _ = std::fs::remove_file(&out_path);
        if std::fs::write(&given, src).is_err() || std::fs::write(&sibling, decoy).is_err() {
            return;
        }
        o.evals += 1;
        let out = std::process::Command::new(TX3C).arg("build").arg(&given).arg("--emit").arg("tii").arg("-o").arg(&out_path).output();
        let got = out.ok().filter(|x| x.status.success()).and_then(|_| std::fs::read(&out_path).ok());
        let _ = std::fs::remove_file(&given);
        let _ = std::fs::remove_file(&sibling);
        let _ = std::fs::remove_file(&out_path);
        match got {
            Some(b) if b == usual => o.class("other-extension:same-interface"),
            Some(_) => o.violate(Violation::new("tii|interface-of-another-file", format!("built from x.{ext} (beside a valid x.tx3 holding another program) the interface differs from the one built from the same text under a .tx3 name")).with_detail(detail.clone())),
            None => o.violate(Violation::new("tx3c|fails-on-a-source-with-another-extension", format!("tx3c build x.{ext} failed although the same text builds under a .tx3 name")).with_detail(detail.clone())),
        }
    }
}

pub fn judge(src: &str, o: &mut Outcome, detail: &Value) {
    let viol = |o: &mut Outcome, sig: &str, what: String| o.violate(Violation::new(sig, what).with_detail(detail.clone()));
    let lowered = match panics::catch(|| crate::common::pipeline::lower_source(src)) {
        Ok(Ok(t)) => t,
        other => {
            o.class("program-not-lowerable-in-process");
            if let Ok(dir) = std::env::var("VERIF_C17_TRACE") {
                use std::io::Write;
                let _ = std::fs::create_dir_all(&dir);
                if let Ok(mut f) = std::fs::OpenOptions::new().create(true).append(true).open(format!("{dir}/{}", std::process::id())) {
                    let why = match other {
                        Ok(Err(e)) => crate::engine::first_line(&e.to_string(), 200),
                        _ => "panic".to_string(),
                    };
                    let _ = writeln!(f, "{}\t{}", why, serde_json::to_string(src).unwrap_or_default());
                }
            }
            return;
        }
    };
    o.evals += 1;
    let tii = match run_tx3c(src, "p") {
        Ok(b) => b,
        Err(e) => {
            o.class("tx3c-failed");
            viol(o, "tx3c|fails-on-lowerable-program", e);
            return;
        }
    };
    let doc: Value = match serde_json::from_slice(&tii) {
        Ok(v) => v,
        Err(e) => {
            viol(o, "tii|not-json", e.to_string());
            return;
        }
    };
    o.class("tii-emitted");
    if detail["kind"] == "corpus" {
        judge_other_extension(src, &tii, o, detail);
    }
    let keys = |v: &Value| -> BTreeSet<String> { v.as_object().map(|m| m.keys().cloned().collect()).unwrap_or_default() };
    let parties = keys(&doc["parties"]);
    let env = keys(&doc["environment"]["properties"]);
    // a profile carries values for the declared environment entries and parties: a client sends them under the keys
    // the profile uses, so those must be declared keys, each value supplied must be there, and nothing else
    {
        let dot: String = parties.iter().chain(env.iter()).map(|k| format!("{}=v_{}\n", k.to_uppercase(), k.to_lowercase())).collect();
        let file = scratch_file("profile.env", &dot);
        o.evals += 1;
        match run_tx3c_with(src, "pp", &["--profile-env-file".to_string(), format!("preview:{file}")]) {
            Err(e) => viol(o, "tx3c|fails-with-a-profile", e),
            Ok(b) => {
                let pdoc: Value = serde_json::from_slice(&b).unwrap_or(Value::Null);
                let prof = &pdoc["profiles"]["preview"];
                for (section, declared) in [("parties", &parties), ("environment", &env)] {
                    let got = keys(&prof[section]);
                    if &got != declared {
                        let kind = if got.iter().map(|k| k.to_lowercase()).collect::<BTreeSet<_>>() == declared.iter().map(|k| k.to_lowercase()).collect::<BTreeSet<_>>() {
                            "spelling-differs"
                        } else {
                            "other-keys"
                        };
                        viol(o, &format!("tii|profile-keys-are-not-the-declared-keys|{section}|{kind}"), format!("the profile's {section} are keyed {got:?}, the interface declares {declared:?} (every one of them has a value in the env file)"));
                    }
                    for k in got.intersection(declared) {
                        let want = format!("v_{}", k.to_lowercase());
                        if prof[section][k].as_str() != Some(want.as_str()) {
                            viol(o, &format!("tii|profile-value-differs|{section}"), format!("profile value of `{k}` is {}, the env file says {want}", prof[section][k]));
                        }
                    }
                }
            }
        }
    }
    let txs = keys(&doc["transactions"]);
    if txs != lowered.keys().cloned().collect::<BTreeSet<_>>() {
        viol(o, "tii|transaction-set-differs", format!("TII lists {txs:?}, program defines {:?}", lowered.keys().collect::<Vec<_>>()));
    }
    for (name, tx) in lowered.iter() {
        let t = &doc["transactions"][name];
        let params = keys(&t["params"]["properties"]);
        // embedded IR decodes to what lowering produced
        let content = t["tir"]["content"].as_str().unwrap_or("");
        let version = t["tir"]["version"].as_str().unwrap_or("");
        let decoded = hex::decode(content)
            .ok()
            .and_then(|b| TirVersion::try_from(version).ok().and_then(|v| from_bytes(&b, v).ok()));
        let Some(AnyTir::V1Beta0(decoded)) = decoded else {
            viol(o, "tii|embedded-ir-undecodable", format!("tx {name}: envelope does not decode"));
            continue;
        };
        if canon_tir(&decoded) != canon_tir(tx) {
            viol(o, "tii|embedded-ir-differs-from-lowering", format!("tx {name}: decode(tir) != lower(P, tx)"));
        }
        let required: BTreeSet<String> = find_params(&decoded).keys().cloned().collect();
        let declared: BTreeSet<String> = params.iter().chain(parties.iter()).chain(env.iter()).cloned().collect();
        // collisions among declared names
        let mut lowered_names = BTreeSet::new();
        for d in params.iter().chain(env.iter()).chain(parties.iter()) {
            if !lowered_names.insert(d.to_lowercase()) {
                viol(o, "tii|declared-names-collide", format!("tx {name}: `{d}` collides with another declared key after lower-casing"));
            }
        }
        // every key the IR requires is declared under the same spelling (script parameters of policies are
        // derived names, reported separately)
        for r in required.iter() {
            if !declared.contains(r) {
                let kind = if r.ends_with("_script") {
                    "policy-script-parameter"
                } else if declared.iter().any(|d| d.to_lowercase() == *r) {
                    "spelling-differs"
                } else {
                    "not-declared"
                };
                viol(o, &format!("tii|required-key-missing|{kind}"), format!("tx {name}: the IR requires `{r}`, the TII declares {declared:?}"));
            }
        }
        // every declared key the body uses is required under the same spelling
        for d in params.iter().chain(env.iter()) {
            if required.contains(&d.to_lowercase()) && !required.contains(d) {
                viol(o, "tii|declared-key-spelled-differently-in-ir", format!("tx {name}: TII declares `{d}`, the IR expects `{}`", d.to_lowercase()));
            }
        }
        // end to end: a client supplying exactly what the interface declares is not told an argument is missing
        let types = find_params(&decoded);
        let mut args = serde_json::Map::new();
        for d in declared.iter() {
            let ty = types.get(d).or_else(|| types.get(&d.to_lowercase()));
            let v = match ty.map(arg_for) {
                Some(tx3_tir::reduce::ArgValue::Int(i)) => json!(i as i64),
                Some(tx3_tir::reduce::ArgValue::Bool(b)) => json!(b),
                Some(tx3_tir::reduce::ArgValue::Bytes(b)) => json!(hex::encode(b)),
                Some(tx3_tir::reduce::ArgValue::Address(b)) => json!(hex::encode(b)),
                Some(tx3_tir::reduce::ArgValue::UtxoRef(r)) => json!(format!("{}#{}", hex::encode(r.txid), r.index)),
                _ => json!(1),
            };
            args.insert(d.clone(), v);
        }
        let req = json!({"tir": t["tir"], "args": args});
        let outcome = panics::catch(|| {
            let req: tx3_resolver::trp::ResolveParams = serde_json::from_value(req.clone()).map_err(|e| format!("request: {e}"))?;
            let (tir, argmap) = tx3_resolver::trp::parse_resolve_request(req).map_err(|e| format!("parse: {e}"))?;
            // what the client declared-and-supplied must leave no value parameter open
            if let Ok(AnyTir::V1Beta0(applied)) = tir.clone().apply_args(&argmap) {
                let left = crate::common::canon::unresolved_tx(&applied);
                if let Some(k) = left.values.first() {
                    return Err(format!("unset:{k}"));
                }
            }
            let store = MemStore::new(vec![super::c06::sample_utxo(0x21), super::c06::sample_utxo(0x22)]);
            let mut comp = compiler(&PP::default());
            match pollster::block_on(tx3_resolver::resolve_tx(tir, &argmap, &mut comp, &store, 3)) {
                Err(tx3_resolver::Error::MissingTxArg { key, .. }) => Err(format!("missing:{key}")),
                _ => Ok(()),
            }
        });
        match outcome {
            Ok(Err(e)) if e.starts_with("missing:") => {
                let k = &e["missing:".len()..];
                let kind = if k.ends_with("_script") { "policy-script-parameter" } else { "declared-key" };
                viol(o, &format!("tii|client-with-declared-keys-misses-argument|{kind}"), format!("tx {name}: supplying every declared key still yields MissingTxArg({k})"));
            }
            Ok(Err(e)) if e.starts_with("unset:") => {
                let k = &e["unset:".len()..];
                let kind = if k.ends_with("_script") { "policy-script-parameter" } else { "declared-key" };
                viol(
                    o,
                    &format!("tii|client-with-declared-keys-leaves-parameter-unset|{kind}"),
                    format!("tx {name}: after handing over every declared key the template still expects a value for `{k}`"),
                );
            }
            _ => {}
        }
    }
}

impl Prop for C17 {
    fn id(&self) -> &'static str {
        "C17"
    }
    fn rule(&self, _tier: Tier) -> String {
        "every corpus program and every execution with <= 2 deviations of a spelling generator (5 spellings for 2 parameters, 2 parties, 2 env fields; \
         third parameter absent / unused / used / colliding after lower-casing; env fields used or not; with or without a policy) is written to disk and \
         compiled by the real `tx3c build --emit tii`; the file is read back: transaction set equal; embedded IR decodes to canonical(lower(P, tx)); \
         find_params(decoded) is a subset of the declared keys with identical spelling; every declared key the body uses is required under the same \
         spelling; no two declared keys collide; every corpus program also under names that do not end in .tx3, beside a decoy of the same stem that does (same interface); built once more with a profile whose env file gives a value to every party and environment entry: the profile's keys are exactly the declared ones, with those values; a request built from exactly the declared keys passes parse_resolve_request and resolve_tx without \
         MissingTxArg. The same for every distinct program of the typed generator (gen::prog) with <= 2 (thorough 3) deviations. Non-trivial = tx3c produced a TII that was compared; distinct = distinct sources."
            .into()
    }
    fn assumptions(&self) -> Vec<String> {
        vec!["the binary is rebuilt from /repo by ./check before the run".into(), "derived `<policy>_script` parameters are reported under their own signature".into()]
    }
    fn bound(&self, _tier: Tier) -> String {
        "spelling generator <= 2 deviations (thorough 3); corpus; typed program generator <= 2 (3) deviations".into()
    }
    fn case_identity(&self, case: &Value) -> String {
        case["src"].as_str().unwrap_or("").to_string()
    }
    fn enumerate(&self, tier: Tier, sink: &mut Sink) {
        let mut gen = |c: &mut Chooser| gen_program(c);
        dbx::explore(if tier.is_thorough() { 3 } else { 2 }, &mut gen, &mut |choices, _d, src| {
            sink.case(|| json!({"kind": "spelling", "choices": choices, "src": src}));
        });
        for (name, src) in c13::corpus(tier) {
            sink.case(|| json!({"kind": "corpus", "file": name, "src": src}));
        }
        // feature-rich programs of the typed generator (env, locals, policies, assets, records, mint, validity,
        // signers, metadata, references, collateral ...): each declared key is used in some other position
        for src in crate::gen::prog::distinct_sources(if tier.is_thorough() { 3 } else { 2 }) {
            sink.case(|| json!({"kind": "generator", "src": src}));
        }
    }
    fn run(&self, case: &Value) -> Outcome {
        let mut o = Outcome::default();
        let src = case["src"].as_str().unwrap_or("");
        judge(src, &mut o, &json!({"kind": case["kind"], "file": case["file"], "src": src}));
        if o.classes.contains_key("tii-emitted") {
            o.key(hash64(src));
        }
        o
    }
}

pub fn gen_program_pub(c: &mut Chooser) -> String {
    gen_program(c)
}
