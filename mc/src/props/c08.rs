//! C08 — redeemers are attached to the item they were written for.
//!
//! Constant TIRs are built directly and compiled: 1..4 script inputs (single or 2-UTxO) over a pool of refs
//! whose txid order and index order disagree (all injective assignments => all relative orders), 0..3
//! mints / burns over three policies in every source order, 0..2 withdrawals over three reward accounts in
//! every order. Oracle: the (tag, index) -> data map of the decoded witness set equals the map built from
//! the source items by sorting them as the ledger does.

use crate::common::cbor::BigInt;
use crate::common::pipeline::{base_address, compiler, stake_address, PP};
use crate::common::plutus::{self, PData};
use crate::common::store::{factorial, ordered_utxo_set};
use crate::common::{tirb, txdecode};
use crate::engine::{hash64, panics, Outcome, Prop, Sink, Tier, Violation};
use serde::{Deserialize, Serialize};
use serde_json::{json, Value};
use std::collections::BTreeMap;
use tx3_tir::compile::Compiler as _;
use tx3_tir::encoding::AnyTir;
use tx3_tir::model::assets::CanonicalAssets;
use tx3_tir::model::v1beta0 as tir;

pub struct C08;

/// (txid byte, index): txid order and index order disagree
// (the same txid with indices 3 and 24: numeric and textual order disagree as well; indices 24 and 256 sit on lower
// txids than indices 1 and 0, and their CBOR encodings are wider: length-first "canonical" order disagrees with
// the ledger's (txid, index) order too)
const POOL: [(u8, u32); 5] = [(1, 3), (1, 24), (2, 1), (3, 0), (2, 256)];

fn policy(i: usize) -> Vec<u8> {
    vec![[0x10u8, 0x20, 0x30][i]; 28]
}

#[derive(Debug, Clone, Serialize, Deserialize, PartialEq)]
pub struct Case {
    /// per input block: pool positions of its UTxOs (1 or 2)
    pub inputs: Vec<Vec<usize>>,
    /// iteration-order rank of each 2-UTxO set
    pub set_ranks: Vec<usize>,
    /// (is_burn, policy index, carries a redeemer) in source order
    pub mints: Vec<(bool, usize, bool)>,
    /// reward account indices in source order
    pub withdrawals: Vec<usize>,
    /// source order of the input blocks in the `inputs` vector vs names: names[i] of block i
    pub with_redeemerless_input: bool,
    /// mint and burn blocks of one policy name one asset in one quantity: a mint and a burn cancel
    #[serde(default)]
    pub cancelling: bool,
    /// how every redeemer wraps its identifying integer v (see `SHAPES`): 0 = the bare integer
    #[serde(default)]
    pub data_shape: usize,
}

/// redeemer data shapes: the bare integer, a constructor application `alt [v, h'c0de']` for alternatives on both sides
/// of every encoding boundary (121 + alt up to 6, 1280 + (alt - 7) up to 127, the general form beyond), and a list
const SHAPES: [&str; 9] = ["int", "constr-0", "constr-6", "constr-7", "constr-8", "constr-127", "constr-128", "constr-1000", "list"];

fn shape_alt(shape: usize) -> Option<u64> {
    SHAPES[shape].strip_prefix("constr-").and_then(|a| a.parse().ok())
}

fn wrap(shape: usize, v: i128) -> tir::Expression {
    match shape_alt(shape) {
        _ if shape == 0 => tir::Expression::Number(v),
        Some(alt) => tir::Expression::Struct(tir::StructExpr { constructor: alt as usize, fields: vec![tir::Expression::Number(v), tir::Expression::Bytes(vec![0xc0, 0xde])] }),
        None => tir::Expression::List(vec![tir::Expression::Number(v), tir::Expression::Bytes(vec![0xc0, 0xde])]),
    }
}

/// the identifying integer of a decoded redeemer when it has exactly the shape written in the template
fn unwrap(shape: usize, d: &PData) -> Result<i128, String> {
    let int = |d: &PData| match d {
        PData::Int(i) => i.to_i128().ok_or_else(|| "integer beyond i128".to_string()),
        other => Err(format!("{other} where the integer is written")),
    };
    let pair = |items: &Vec<PData>| match items.as_slice() {
        [v, PData::Bytes(b)] if b == &vec![0xc0, 0xde] => int(v),
        other => Err(format!("fields {:?}", other.iter().map(|x| x.to_string()).collect::<Vec<_>>())),
    };
    match (shape_alt(shape), d) {
        _ if shape == 0 => int(d),
        (Some(alt), PData::Constr(a, fields)) if *a == alt => pair(fields),
        (Some(alt), other) => Err(format!("{other} where alternative {alt} is written")),
        (None, PData::List(items)) => pair(items),
        (None, other) => Err(format!("{other} where a list is written")),
    }
}

/// reward accounts whose order by bare credential (script 10.., key 50.., key 90..) is not their order as accounts
/// (header byte first: key e0 50.., key e0 90.., script f0 10..)
fn reward_account(w: usize) -> Vec<u8> {
    let (header, fill) = [(0xe0u8, 0x90u8), (0xf0, 0x10), (0xe0, 0x50)][w % 3];
    let mut v = vec![header];
    v.extend([fill; 28]);
    v
}

fn ref_of(p: usize) -> tx3_tir::model::core::UtxoRef {
    tx3_tir::model::core::UtxoRef { txid: vec![POOL[p].0; 32], index: POOL[p].1 }
}

fn build(case: &Case) -> tir::Tx {
    let mut tx = tirb::empty_tx();
    tx.fees = tirb::assets(vec![tirb::lovelace(200_000)]);
    for (b, slots) in case.inputs.iter().enumerate() {
        let utxos: Vec<_> = slots
            .iter()
            .map(|p| tirb::utxo(ref_of(*p), &base_address(9, 0), CanonicalAssets::from_naked_amount(2_000_000)))
            .collect();
        let set = ordered_utxo_set(&utxos, case.set_ranks.get(b).copied().unwrap_or(0));
        tx.inputs.push(tir::Input {
            name: format!("in{b}"),
            utxos: tir::Expression::UtxoSet(set),
            redeemer: wrap(case.data_shape, 100 + b as i128),
        });
    }
    if case.with_redeemerless_input {
        // a plain (non-script) input that sorts before everything else
        let u = tirb::utxo(
            tx3_tir::model::core::UtxoRef { txid: vec![0; 32], index: 7 },
            &base_address(9, 0),
            CanonicalAssets::from_naked_amount(2_000_000),
        );
        tx.inputs.push(tir::Input {
            name: "plain".into(),
            utxos: tir::Expression::UtxoSet([u].into_iter().collect()),
            redeemer: tir::Expression::None,
        });
    }
    for (k, (is_burn, p, red)) in case.mints.iter().enumerate() {
        let m = tir::Mint {
            amount: if case.cancelling {
                tirb::assets(vec![tirb::token(&policy(*p), b"T", 5)])
            } else {
                tirb::assets(vec![tirb::token(&policy(*p), format!("T{k}").as_bytes(), if *is_burn { 2 } else { 5 })])
            },
            redeemer: if *red { wrap(case.data_shape, 200 + *p as i128) } else { tir::Expression::None },
        };
        if *is_burn {
            tx.burns.push(m);
        } else {
            tx.mints.push(m);
        }
    }
    for w in case.withdrawals.iter() {
        tx.adhoc.push(tir::AdHocDirective {
            name: "withdrawal".into(),
            data: std::collections::HashMap::from([
                ("credential".to_string(), tir::Expression::Address(reward_account(*w))),
                ("amount".to_string(), tir::Expression::Number(10 + *w as i128)),
                ("redeemer".to_string(), wrap(case.data_shape, 300 + *w as i128)),
            ]),
        });
    }
    tx.outputs.push(tir::Output {
        address: tir::Expression::Address(base_address(9, 0)),
        datum: tir::Expression::None,
        amount: tirb::assets(vec![tirb::lovelace(1_000_000)]),
        optional: false,
    });
    tx
}

/// (tag, index) -> integer redeemer data, built by sorting the source items as the ledger does
fn expected(case: &Case) -> BTreeMap<(u64, u64), i128> {
    let mut out = BTreeMap::new();
    // spend: all inputs sorted by (txid, index) bytewise
    let mut all: Vec<(Vec<u8>, u32, Option<i128>)> = vec![];
    for (b, slots) in case.inputs.iter().enumerate() {
        for p in slots {
            all.push((vec![POOL[*p].0; 32], POOL[*p].1, Some(100 + b as i128)));
        }
    }
    if case.with_redeemerless_input {
        all.push((vec![0; 32], 7, None));
    }
    all.sort();
    for (i, (_, _, d)) in all.iter().enumerate() {
        if let Some(d) = d {
            out.insert((0, i as u64), *d);
        }
    }
    // mint: distinct policies sorted bytewise
    let mut pols: Vec<usize> = case.mints.iter().map(|(_, p, _)| *p).filter(|p| !cancelled(case, *p)).collect();
    pols.sort_by_key(|p| policy(*p));
    pols.dedup();
    for (i, p) in pols.iter().enumerate() {
        // a policy is guarded when some block on it carries a redeemer
        if case.mints.iter().any(|(_, q, red)| q == p && *red) {
            out.insert((1, i as u64), 200 + *p as i128);
        }
    }
    // reward: accounts sorted bytewise
    let mut ws: Vec<usize> = case.withdrawals.clone();
    ws.sort_by_key(|w| reward_account(*w));
    ws.dedup();
    for (i, w) in ws.iter().enumerate() {
        out.insert((3, i as u64), 300 + *w as i128);
    }
    out
}

/// the policy's blocks sum to nothing: it does not appear in the body, so a redeemer written for it guards no item
fn cancelled(case: &Case, p: usize) -> bool {
    case.cancelling && case.mints.iter().filter(|(_, q, _)| *q == p).map(|(burn, _, _)| if *burn { -5i64 } else { 5 }).sum::<i64>() == 0
}

fn tag_name(t: u64) -> &'static str {
    match t {
        0 => "spend",
        1 => "mint",
        2 => "cert",
        3 => "reward",
        _ => "other",
    }
}

fn judge(case: &Case, o: &mut Outcome) {
    let tx = build(case);
    let mut comp = compiler(&PP::default());
    let res = panics::catch(|| comp.compile(&AnyTir::V1Beta0(tx)));
    let multi = case.inputs.iter().any(|s| s.len() > 1);
    let compiled = match res {
        Err(p) => {
            o.class("compile-panic");
            o.violate(Violation::new(format!("compile-{}", p.signature()), format!("compile panicked: {}", p.message)));
            return;
        }
        Ok(Err(_)) if case.mints.iter().any(|(_, p, red)| *red && cancelled(case, *p)) => {
            // a redeemer written for a policy that cancels out has no item to attach to: refusing is legitimate
            o.class("refused-redeemer-for-cancelled-policy");
            return;
        }
        Ok(Err(e)) => {
            o.class("compile-error");
            o.violate(Violation::new(
                format!("compile-error|{}", panics::normalize_message(&e.to_string())),
                format!("constant template with redeemers failed to compile: {e}"),
            ));
            return;
        }
        Ok(Ok(c)) => c,
    };
    let rec = match txdecode::decode_tx(&compiled.payload) {
        Ok(r) => r,
        Err(e) => {
            o.class("undecodable");
            o.violate(Violation::new("payload-undecodable", e));
            return;
        }
    };
    let exp = expected(case);
    let mut got: BTreeMap<(u64, u64), i128> = BTreeMap::new();
    let mut dup = false;
    for r in &rec.redeemers {
        let val = match plutus::read_bytes(&r.data_raw).map(|d| unwrap(case.data_shape, &d)) {
            Ok(Ok(v)) => v,
            Ok(Err(what)) => {
                o.violate(Violation::new(format!("redeemer|data-kind|{}", SHAPES[case.data_shape]), format!("redeemer data written as {} decoded as {what}", SHAPES[case.data_shape])));
                i128::MIN
            }
            Err(e) => {
                o.violate(Violation::new("redeemer|data-undecodable", e));
                i128::MIN
            }
        };
        if got.insert((r.tag, r.index), val).is_some() {
            dup = true;
        }
    }
    if dup {
        o.violate(Violation::new("redeemer|duplicate-key", "two redeemers share one (tag, index)"));
    }
    let _ = BigInt::from_i128(0);
    if got == exp {
        o.class("map-equal");
        return;
    }
    o.class("map-differs");
    // classify the differences
    let mut sigs: Vec<(String, String)> = vec![];
    for (k, v) in &exp {
        match got.get(k) {
            None => {
                // is the data present under another index of the same purpose?
                let elsewhere = got.iter().any(|(k2, v2)| k2.0 == k.0 && v2 == v && !exp.get(k2).map(|e| e == v2).unwrap_or(false));
                let kind = if elsewhere { "wrong-index" } else { "missing" };
                let qual = if k.0 == 0 && multi { "|multi-utxo-input" } else { "" };
                sigs.push((
                    format!("redeemer|{}|{kind}{qual}", tag_name(k.0)),
                    format!("expected ({}, {}) -> {v}, witness set has {:?}", tag_name(k.0), k.1, got),
                ));
            }
            Some(g) if g != v => sigs.push((
                format!("redeemer|{}|wrong-data", tag_name(k.0)),
                format!("({}, {}) carries {g}, expected {v}", tag_name(k.0), k.1),
            )),
            _ => {}
        }
    }
    for (k, v) in &got {
        if !exp.contains_key(k) {
            sigs.push((
                format!("redeemer|{}|unexpected-entry", tag_name(k.0)),
                format!("witness set has ({}, {}) -> {v} which no source item explains", tag_name(k.0), k.1),
            ));
        }
    }
    sigs.sort();
    sigs.dedup_by(|a, b| a.0 == b.0);
    for (s, w) in sigs {
        o.violate(Violation::new(s, w).with_detail(json!({
            "inputs_sorted": rec.inputs.iter().map(|(t, i)| format!("{}#{i}", hex::encode(&t[..2]))).collect::<Vec<_>>(),
            "mint_policies": rec.mint.keys().map(|(p, _)| hex::encode(&p[..2])).collect::<Vec<_>>(),
            "withdrawals": rec.withdrawals.iter().map(|(a, _)| hex::encode(&a[..3])).collect::<Vec<_>>(),
        })));
    }
}

fn input_configs(f: &mut dyn FnMut(Vec<Vec<usize>>)) {
    // shapes: block sizes (1 or 2) with total slots <= 5, 1..4 blocks; all injective assignments
    fn assign(sizes: &[usize], used: &mut Vec<usize>, cur: &mut Vec<Vec<usize>>, f: &mut dyn FnMut(Vec<Vec<usize>>)) {
        if cur.len() == sizes.len() {
            f(cur.clone());
            return;
        }
        let size = sizes[cur.len()];
        // choose an ordered tuple of distinct unused pool slots (order inside a set is irrelevant: ascending)
        let free: Vec<usize> = (0..POOL.len()).filter(|p| !used.contains(p)).collect();
        if size == 1 {
            for p in free {
                used.push(p);
                cur.push(vec![p]);
                assign(sizes, used, cur, f);
                cur.pop();
                used.pop();
            }
        } else {
            for i in 0..free.len() {
                for j in i + 1..free.len() {
                    used.push(free[i]);
                    used.push(free[j]);
                    cur.push(vec![free[i], free[j]]);
                    assign(sizes, used, cur, f);
                    cur.pop();
                    used.pop();
                    used.pop();
                }
            }
        }
    }
    for k in 1..=4usize {
        for mask in 0..(1u32 << k) {
            let sizes: Vec<usize> = (0..k).map(|i| if mask & (1 << i) != 0 { 2 } else { 1 }).collect();
            if sizes.iter().sum::<usize>() > POOL.len() {
                continue;
            }
            assign(&sizes, &mut vec![], &mut vec![], f);
        }
    }
}

fn mint_seqs() -> Vec<Vec<(bool, usize, bool)>> {
    let items: Vec<(bool, usize, bool)> = [false, true]
        .iter()
        .flat_map(|b| (0..3).flat_map(move |p| [true, false].into_iter().map(move |r| (*b, p, r))))
        .collect();
    let mut out = vec![vec![]];
    for len in 1..=3 {
        let total = items.len().pow(len as u32);
        for t in 0..total {
            let mut x = t;
            let mut s = vec![];
            for _ in 0..len {
                s.push(items[x % items.len()]);
                x /= items.len();
            }
            out.push(s);
        }
    }
    out
}

fn wd_seqs() -> Vec<Vec<usize>> {
    let mut out = vec![vec![]];
    for a in 0..3 {
        out.push(vec![a]);
        for b in 0..3 {
            if a != b {
                out.push(vec![a, b]);
            }
        }
    }
    out
}

impl Prop for C08 {
    fn id(&self) -> &'static str {
        "C08"
    }
    fn rule(&self, tier: Tier) -> String {
        format!(
            "constant TIRs compiled directly: all injective assignments of a 5-ref pool (txid order != index order) to 0..4 script inputs of 1 or 2 \
             UTxOs (both iteration orders of every 2-UTxO set), all sequences of 0..3 mints/burns over 3 policies each with or without a redeemer, all sequences of 0..2 withdrawals \
             over 3 reward accounts (key and script headers, ordered differently by bare credential), sequences that mint and burn one policy also with both sides cancelling, with / without an extra redeemer-less input; {}; every redeemer's data also written as a constructor application of alternative 0/6/7/8/127/128/1000 and as a list (8 shapes x 8 item configurations). Oracle: decoded witness-set map (tag, index) -> data = map built \
             from the source items sorted as the ledger sorts (inputs by (txid, index), policies and reward accounts bytewise). Non-trivial = compiled \
             and decoded; distinct = distinct case descriptions.",
            if tier.is_thorough() { "full product of the three axes" } else { "each axis complete against a few fixed configurations of the other two" }
        )
    }
    fn assumptions(&self) -> Vec<String> {
        vec![
            "redeemer data is one integer per block / per policy / per account, so two items on one policy never carry different data (that case is outside the property)".into(),
            "ledger ordering rules are written from the Conway specification; certificates and votes are not covered".into(),
        ]
    }
    fn bound(&self, tier: Tier) -> String {
        if tier.is_thorough() { "full product".into() } else { "per-axis complete".into() }
    }

    fn enumerate(&self, tier: Tier, sink: &mut Sink) {
        let mut ins: Vec<Vec<Vec<usize>>> = vec![];
        input_configs(&mut |c| ins.push(c));
        let mints = mint_seqs();
        let wds = wd_seqs();
        // the data of every redeemer in every non-integer shape, for a few item configurations per purpose
        for shape in 1..SHAPES.len() {
            for inputs in [vec![vec![0]], vec![vec![3], vec![1, 2]]] {
                for m in [vec![], vec![(false, 2, true), (true, 0, true)]] {
                    for w in [vec![], vec![2, 0]] {
                        let case = Case { inputs: inputs.clone(), set_ranks: vec![0; inputs.len()], mints: m.clone(), withdrawals: w.clone(), with_redeemerless_input: shape % 2 == 0, cancelling: false, data_shape: shape };
                        sink.case(|| json!({"kind": "redeemers", "case": case}));
                    }
                }
            }
        }
        let mut emit = |inputs: &Vec<Vec<usize>>, m: &Vec<(bool, usize, bool)>, w: &Vec<usize>, plain: bool| {
            // every iteration order of every 2-UTxO set
            let doubles: Vec<usize> = inputs.iter().enumerate().filter(|(_, s)| s.len() == 2).map(|(i, _)| i).collect();
            let combos = 1usize << doubles.len();
            for c in 0..combos {
                let mut ranks = vec![0; inputs.len()];
                for (bit, b) in doubles.iter().enumerate() {
                    ranks[*b] = (c >> bit) & 1;
                }
                let case = Case { inputs: inputs.clone(), set_ranks: ranks, mints: m.clone(), withdrawals: w.clone(), with_redeemerless_input: plain, cancelling: false, data_shape: 0 };
                sink.case(|| json!({"kind": "redeemers", "case": case}));
                // the same blocks naming one asset in one quantity, when a policy is both minted and burned
                if c == 0 && m.iter().any(|(b, p, _)| *b && m.iter().any(|(b2, p2, _)| !*b2 && p2 == p)) {
                    let case = Case { cancelling: true, ..case };
                    sink.case(|| json!({"kind": "redeemers", "case": case}));
                }
            }
        };
        let _ = factorial(1);
        // no script input at all (one plain input pays): the redeemers of the mints and withdrawals are the only ones
        {
            let none: Vec<Vec<usize>> = vec![];
            if tier.is_thorough() {
                for m in &mints {
                    for w in &wds {
                        emit(&none, m, w, true);
                    }
                }
            } else {
                for m in &mints {
                    for w in [vec![], vec![2, 0]] {
                        emit(&none, m, &w, true);
                    }
                }
                for w in &wds {
                    for m in [vec![], vec![(false, 1, true)], vec![(false, 2, false)], vec![(true, 0, false), (false, 2, true)]] {
                        emit(&none, &m, w, true);
                    }
                }
            }
        }
        if tier.is_thorough() {
            for i in &ins {
                for m in &mints {
                    for w in &wds {
                        emit(i, m, w, m.len() % 2 == 1);
                    }
                }
            }
        } else {
            let fixed_m = [vec![], vec![(false, 1, true)], vec![(false, 2, true), (true, 0, false)]];
            let fixed_w = [vec![], vec![2, 0]];
            let fixed_i = [vec![vec![0]], vec![vec![3], vec![1, 2]]];
            for i in &ins {
                for m in &fixed_m {
                    for w in &fixed_w {
                        emit(i, m, w, false);
                    }
                }
                emit(i, &vec![], &vec![], true);
            }
            for m in &mints {
                for i in &fixed_i {
                    for w in &fixed_w {
                        emit(i, m, w, false);
                    }
                }
            }
            for w in &wds {
                for i in &fixed_i {
                    for m in &fixed_m {
                        emit(i, m, w, true);
                    }
                }
            }
        }
    }

    fn run(&self, case: &Value) -> Outcome {
        let mut o = Outcome::default();
        let c: Case = serde_json::from_value(case["case"].clone()).expect("case");
        o.evals = 1;
        judge(&c, &mut o);
        if o.classes.keys().any(|k| k.starts_with("map-")) {
            o.key(hash64(&case.to_string()));
        }
        o
    }
}
