//! C12 — the front end is total: any source text yields an AST or a diagnostic.
//!
//! Families: (1) derivations of the grammar file itself, every rule in focus, <= k deviations inside it;
//! (2) every single token edit at every token of every example program; (3) nesting 1..64 of every
//! recursive construct; (4) mutually referring blocks (analysis cost). Each string is one isolated case:
//! a panic, abort (stack overflow, allocation failure under the 4 GiB cap) or hang (> 10 s of CPU time, or 300 s of wall-clock time) is a violation.

use crate::engine::dbx::{self, Chooser};
use crate::engine::{hash64, panics, Outcome, Prop, Sink, Tier, Violation};
use crate::gen::grammar::Grammar;
use crate::gen::tokens::{self, SPLICE};
use serde_json::{json, Value};

pub struct C12;

pub fn example_files() -> Vec<(String, String)> {
    let mut v = vec![];
    if let Ok(rd) = std::fs::read_dir("/repo/examples") {
        for e in rd.flatten() {
            let p = e.path();
            if p.extension().and_then(|x| x.to_str()) == Some("tx3") {
                if let Ok(s) = std::fs::read_to_string(&p) {
                    v.push((p.file_name().unwrap().to_string_lossy().to_string(), s));
                }
            }
        }
    }
    v.sort_by(|a, b| (a.1.len(), &a.0).cmp(&(b.1.len(), &b.0)));
    v
}

/// examples whose analysis is slow are mutated in the thorough tier only (the analyzer is super-linear in
/// cross references; see the `cycle` family)
const HEAVY: [&str; 4] = ["lang_tour.tx3", "asteria.tx3", "levvy.tx3", "splash.tx3"];

pub fn token_mutants(toks: &[String], f: &mut dyn FnMut(&str, usize, Vec<String>)) {
    for i in 0..toks.len() {
        let mut d = toks.to_vec();
        d.remove(i);
        f("delete", i, d);
        let mut d = toks.to_vec();
        d.insert(i, toks[i].clone());
        f("duplicate", i, d);
        if i + 1 < toks.len() {
            let mut d = toks.to_vec();
            d.swap(i, i + 1);
            f("swap", i, d);
        }
        for s in SPLICE {
            if toks[i] != s {
                let mut d = toks.to_vec();
                d[i] = s.to_string();
                f("replace", i, d);
            }
        }
        let t = &toks[i];
        let stretched = if t.starts_with("0x") {
            Some(format!("{t}A"))
        } else if t.starts_with('"') {
            Some(t.trim_end_matches('"').to_string())
        } else if t.chars().next().map(|c| c.is_ascii_digit() || c == '-').unwrap_or(false) {
            Some(format!("{t}000000000000000000000000000000"))
        } else {
            None
        };
        if let Some(s) = stretched {
            let mut d = toks.to_vec();
            d[i] = s;
            f("stretch", i, d);
        }
    }
}

pub fn nesting_source(shape: usize, n: usize) -> String {
    let e = match shape {
        0 => format!("{}1{}", "(".repeat(n), ")".repeat(n)),
        1 => format!("{}1{}", "[".repeat(n), "]".repeat(n)),
        2 => format!("{}1{}", "Foo { a: ".repeat(n), ", }".repeat(n)),
        3 => format!("{}1", "!".repeat(n)),
        4 => format!("x{}", ".a".repeat(n)),
        5 => format!("x{}", "[0]".repeat(n)),
        6 => format!("{}1", "1 + ".repeat(n)),
        7 => format!("{}1{}", "concat(1, ".repeat(n), ")".repeat(n)),
        8 => format!("{}1{}", "Ada(".repeat(n), ")".repeat(n)),
        // calls whose name has a constructor rule of its own, with fewer arguments than that rule wants (the
        // constructor rule reads the argument, gives up at the missing comma, and the call rule reads it again)
        9 => format!("{}1{}", "concat(".repeat(n), ")".repeat(n)),
        10 => format!("{}1{}", "AnyAsset(".repeat(n), ")".repeat(n)),
        11 => format!("{}1{}", "AnyAsset(1, ".repeat(n), ")".repeat(n)),
        12 => format!("{}1{}", "AnyAsset(1, 2, ".repeat(n), ")".repeat(n)),
        13 => format!("{}1{}", "concat(".repeat(n), ", 1)".repeat(n)),
        // nesting through the other bracketed forms
        14 => format!("{}1{}", "{ 1: ".repeat(n), ", }".repeat(n)),
        15 => format!("{}1{}", "{ ".repeat(n), ": 1, }".repeat(n)),
        16 => format!("{}1{}", "f(1, ".repeat(n), ")".repeat(n)),
        17 => format!("{}1{}", "Foo::Bar { a: ".repeat(n), ", }".repeat(n)),
        18 => format!("{}0{}", "x[".repeat(n), "]".repeat(n)),
        19 => format!("{}1{}", "Foo { ...".repeat(n), " }".repeat(n)),
        _ => format!("{}1{}", "[1, ".repeat(n), "]".repeat(n)),
    };
    format!("type Foo {{ a: Int, }}\ntx t(x: Int) {{\n  output {{\n    amount: {e},\n  }}\n}}\n")
}
const NEST_SHAPES: usize = 21;

fn cycle_source(blocks: usize, r: usize, kind: usize) -> String {
    // `blocks` inputs whose min_amount refers r times to the next one (cyclically)
    let mut s = String::from("party S;\ntx t(q: Int) {\n");
    for i in 0..blocks {
        let next = (i + 1) % blocks;
        let refs = format!(" + i{next}").repeat(r);
        match kind {
            0 => s.push_str(&format!("  input i{i} {{ from: S, min_amount: Ada(q){refs}, }}\n")),
            _ => s.push_str(&format!("  locals {{ l{i}: Ada(q){}, }}\n", format!(" + l{next}").repeat(r))),
        }
    }
    s.push_str("}\n");
    s
}

/// Self-referring definitions in every position a name can be mentioned: (name, source, mentions per definition).
/// A local `a` mentions `target` m times, each mention wrapped in one expression context; `target` is `a` itself,
/// a second local that mentions `a` back, the input `st` one of whose fields mentions `a`, or `a` bound twice
/// (harmless first / circular second and the other way round). Undetected, the analyzer's passes grow the
/// definition m-fold each; with m = 1 nothing grows and the program only has to be refused or lowerable (C13).
pub fn cycle_shapes() -> Vec<(String, String, usize)> {
    let contexts: [(&str, fn(&str) -> String); 20] = [
        ("plain", |n| n.to_string()),
        ("add", |n| format!("{n} + 1")),
        ("add-rhs", |n| format!("1 + {n}")),
        ("sub", |n| format!("{n} - 1")),
        ("sub-rhs", |n| format!("q - ({n})")),
        ("negate", |n| format!("!{n}")),
        ("property-operand", |n| format!("{n}.counter")),
        ("index", |n| format!("xs[{n}]")),
        ("index-of-field", |n| format!("st.limits[{n}]")),
        ("record-field", |n| format!("S {{ counter: {n}, limits: [], }}")),
        ("spread", |n| format!("S {{ counter: 1, ...{n} }}")),
        ("list", |n| format!("[{n}]")),
        ("map-key", |n| format!("{{ {n}: 1, }}")),
        ("map-value", |n| format!("{{ 1: {n}, }}")),
        ("asset-arg", |n| format!("Ada({n})")),
        ("anyasset-arg", |n| format!("AnyAsset(0xAB, \"T\", {n})")),
        ("concat-arg", |n| format!("concat({n}, 0xAB)")),
        ("time_to_slot-arg", |n| format!("time_to_slot({n})")),
        ("slot_to_time-arg", |n| format!("slot_to_time({n})")),
        ("paren", |n| format!("({n})")),
    ];
    let mut out = vec![];
    for (cname, ctx) in contexts.iter() {
        for m in [1usize, 2, 3, 6, 12] {
            let mentions = |target: &str| -> String {
                let items: Vec<String> = (0..m).map(|_| ctx(target)).collect();
                if m == 1 {
                    items[0].clone()
                } else {
                    format!("[{}]", items.join(", "))
                }
            };
            let program = |locals: &str, input_extra: &str| {
                format!(
                    "type S {{\n    counter: Int,\n    limits: List<Int>,\n}}\nparty P;\ntx t(q: Int, xs: List<Int>) {{\n    locals {{\n{locals}    }}\n    input st {{\n        from: P,\n        datum_is: S,\n        min_amount: Ada(q),\n{input_extra}    }}\n    output {{\n        to: P,\n        amount: st - fees,\n        datum: a,\n    }}\n}}\n"
                )
            };
            let mut push = |kind: &str, src: String| out.push((format!("cycle-shape:{kind}:{cname}:{m}"), src, m));
            push("self", program(&format!("        a: {},\n", mentions("a")), ""));
            push("two-locals", program(&format!("        a: {},\n        b: {},\n", mentions("b"), mentions("a")), ""));
            push("dup-harmless-first", program(&format!("        a: 1,\n        a: {},\n", mentions("a")), ""));
            push("dup-circular-first", program(&format!("        a: {},\n        a: 1,\n", mentions("a")), ""));
            for (fname, field) in [
                ("min_amount", "        min_amount: Ada(q) + a,\n"),
                ("redeemer", "        redeemer: a,\n"),
                ("ref", "        ref: a,\n"),
            ] {
                // the input's own field replaces / adds to the plain block
                let extra = if fname == "min_amount" { field.to_string() } else { field.to_string() };
                push(&format!("via-input-{fname}"), program(&format!("        a: {},\n", mentions("st")), &extra));
            }
        }
    }
    out
}

/// Heuristic classification used only to name the family of a case that was killed: does some local or
/// input (transitively) refer to itself? (analysis cost is exponential in the number of such references)
pub fn has_reference_cycle(src: &str) -> bool {
    cycle_kind(src).is_some()
}

fn graph_has_cycle(defs: &[(String, Vec<String>)]) -> bool {
    let n = defs.len();
    for start in 0..n {
        let mut seen = vec![false; n];
        let mut stack = vec![start];
        while let Some(x) = stack.pop() {
            if seen[x] {
                continue;
            }
            seen[x] = true;
            for y in 0..n {
                if defs[x].1.iter().any(|t| *t == defs[y].0) {
                    if y == start {
                        return true;
                    }
                    if !seen[y] {
                        stack.push(y);
                    }
                }
            }
        }
    }
    false
}

/// "reference-cycle": a local / input (transitively) mentions itself; "alias-cycle": a type alias does
pub fn cycle_kind(src: &str) -> Option<&'static str> {
    let toks: Vec<String> = tokens::lex(src).into_iter().map(|t| t.text).collect();
    // type aliases: type NAME = ... ;
    let mut aliases: Vec<(String, Vec<String>)> = vec![];
    let mut i = 0;
    while i + 2 < toks.len() {
        if toks[i] == "type" && toks[i + 2] == "=" {
            let name = toks[i + 1].clone();
            let mut body = vec![];
            let mut k = i + 3;
            while k < toks.len() && toks[k] != ";" {
                body.push(toks[k].trim_end_matches('<').to_string());
                k += 1;
            }
            aliases.push((name, body));
            i = k;
        }
        i += 1;
    }
    if graph_has_cycle(&aliases) {
        return Some("alias-cycle");
    }
    if graph_has_cycle(&reference_defs(&toks)) {
        Some("reference-cycle")
    } else {
        None
    }
}

/// true when some local / input reaches itself and some definition mentions other definitions more than once:
/// only then can the analyzer's passes multiply anything (one mention per definition grows nothing)
pub fn reference_cycle_can_grow(src: &str) -> bool {
    let toks: Vec<String> = tokens::lex(src).into_iter().map(|t| t.text).collect();
    let defs = reference_defs(&toks);
    if !graph_has_cycle(&defs) {
        return false;
    }
    let names: std::collections::HashSet<&String> = defs.iter().map(|(n, _)| n).collect();
    defs.iter().any(|(_, body)| body.iter().filter(|t| names.contains(t)).count() > 1)
}

/// locals and inputs of a source with the tokens of their definitions
fn reference_defs(toks: &[String]) -> Vec<(String, Vec<String>)> {
    let mut defs: Vec<(String, Vec<String>)> = vec![];
    let mut i = 0;
    while i < toks.len() {
        if toks[i] == "locals" && toks.get(i + 1).map(|t| t == "{").unwrap_or(false) {
            i += 2;
            // name : expr , ... }
            while i < toks.len() && toks[i] != "}" {
                let name = toks[i].clone();
                let mut body = vec![];
                let mut depth = 0i32;
                i += 1;
                while i < toks.len() {
                    let t = &toks[i];
                    if depth == 0 && (t == "," || t == "}") {
                        break;
                    }
                    if t == "{" || t == "(" || t == "[" {
                        depth += 1;
                    }
                    if t == "}" || t == ")" || t == "]" {
                        depth -= 1;
                    }
                    body.push(t.clone());
                    i += 1;
                }
                defs.push((name, body));
                if i < toks.len() && toks[i] == "," {
                    i += 1;
                }
            }
        } else if toks[i] == "input" {
            let mut j = i + 1;
            if toks.get(j).map(|t| t == "*").unwrap_or(false) {
                j += 1;
            }
            if let (Some(name), Some(open)) = (toks.get(j), toks.get(j + 1)) {
                if open == "{" {
                    let mut depth = 0i32;
                    let mut body = vec![];
                    let mut k = j + 1;
                    while k < toks.len() {
                        if toks[k] == "{" {
                            depth += 1;
                        }
                        if toks[k] == "}" {
                            depth -= 1;
                            if depth == 0 {
                                break;
                            }
                        }
                        body.push(toks[k].clone());
                        k += 1;
                    }
                    defs.push((name.clone(), body));
                    i = k;
                }
            }
        }
        i += 1;
    }
    defs
}

/// top-level definition shapes: type graphs (records / aliases referring to each other and to themselves),
/// policy and asset definitions over a small expression alphabet, each with and without an alias present
fn definition_programs() -> Vec<(String, String)> {
    let mut out = vec![];
    let targets = ["Int", "T0", "T1", "X"];
    // records T0, T1 with two fields each drawn from `targets`, optional alias X
    for a in 0..targets.len() {
        for b in 0..targets.len() {
            for c in 0..targets.len() {
                for alias in ["", "type X = Int;", "type X = T0;", "type X = X;", "type X = List<X>;"] {
                    let src = format!(
                        "{alias}\ntype T0 {{\n    a: {},\n    b: {},\n}}\ntype T1 {{\n    c: {},\n}}\n",
                        targets[a], targets[b], targets[c]
                    );
                    out.push((format!("types-{a}{b}{c}-{}", alias.len()), src));
                }
            }
        }
    }
    let exprs = ["0xAB", "a", "a.b", "a.b.c", "a[0]", "f(a)", "T0 { a: 1, b: 2, }", "\"s\"", "a + b", "()"];
    let contexts = ["", "type X = Int;", "type T0 {\n    a: Int,\n    b: Int,\n}", "env {\n    a: Int,\n}", "type X = Int;\ntype T0 {\n    a: X,\n    b: Int,\n}\nparty a;"];
    for (ci, ctx) in contexts.iter().enumerate() {
        for (ei, e) in exprs.iter().enumerate() {
            out.push((format!("policy-hash-{ci}-{ei}"), format!("{ctx}\npolicy P {{\n    hash: {e},\n}}\n")));
            out.push((format!("policy-script-{ci}-{ei}"), format!("{ctx}\npolicy P {{\n    hash: 0xAB,\n    script: {e},\n    ref: {e},\n}}\n")));
            out.push((format!("asset-{ci}-{ei}"), format!("{ctx}\nasset A = {e}.{e};\n")));
        }
    }
    out
}

pub fn front(src: &str) -> (String, Vec<Violation>) {
    crate::engine::set_phase("parse");
    let parsed = panics::catch(|| tx3_lang::parsing::parse_string(src));
    match parsed {
        Err(p) => ("parse-panic".into(), vec![Violation::from_panic(&p)]),
        Ok(Err(_)) => ("parse-error".into(), vec![]),
        Ok(Ok(mut program)) => {
            crate::engine::set_phase("analyze");
            let rep = panics::catch(|| tx3_lang::analyzing::analyze(&mut program));
            match rep {
                Err(p) => ("analyze-panic".into(), vec![Violation::from_panic(&p)]),
                Ok(r) if r.errors.is_empty() => ("accepted".into(), vec![]),
                Ok(_) => ("analysis-errors".into(), vec![]),
            }
        }
    }
}

fn grammar_k(tier: Tier) -> usize {
    if tier.is_thorough() {
        3
    } else {
        2
    }
}

impl Prop for C12 {
    fn id(&self) -> &'static str {
        "C12"
    }
    fn isolated(&self) -> bool {
        true
    }
    fn rule(&self, tier: Tier) -> String {
        format!(
            "(1) grammar derivations: tx3.pest is read with pest_meta; for every rule reachable from `program` the shortest context is forced and \
             every execution with <= {} deviations (other alternative / optional present / 1-2 repetitions / other literal from the boundary alphabets) \
             inside the rule is derived, depth <= 12; (2) token mutation: every token of every example program ({}) x {{delete, duplicate, swap, \
             replace by each of 24 tokens, literal stretching}}; (3) nesting: 9 recursive shapes x every depth 1..64; (4) cycles of mutually referring \
             inputs / locals, and self-referring definitions in 20 expression contexts (either side of + and -) x 7 ways of closing the cycle (itself, a second local, an input's min_amount / redeemer / ref, a name bound twice) x 1, 2, 3, 6, 12 mentions; (5) definition shapes: all type graphs over two records x five alias forms, policy / asset definitions over 10 expressions x 5 contexts. Each string: parse_string, then analyze if it parsed. Non-trivial = the call sequence ran (returned, panicked or was killed); \
             distinct = distinct source strings.",
            grammar_k(tier),
            if tier.is_thorough() { "all files" } else { "files whose analysis is fast" }
        )
    }
    fn assumptions(&self) -> Vec<String> {
        vec![
            "strings outside the enumerated families are not covered (bounded nesting depth 64, <= k deviations per focus rule)".into(),
            "a case exceeding 10 s of CPU time (300 s of wall-clock time) or 4 GiB of address space counts as failing to terminate".into(),
        ]
    }
    fn bound(&self, tier: Tier) -> String {
        format!("{} deviations per focus rule; single token edits; nesting <= 64", grammar_k(tier))
    }

    fn case_identity(&self, case: &Value) -> String {
        case["src"].as_str().map(|s| s.to_string()).unwrap_or_else(|| case.to_string())
    }

    fn enumerate(&self, tier: Tier, sink: &mut Sink) {
        // nesting: one escalation case per shape (depth 1, 2, ... until a depth needs more than a second),
        // then the bound of the property itself (depth 64) as an isolated case
        for shape in 0..NEST_SHAPES {
            sink.case(|| json!({"kind": format!("nesting-escalation-{shape}"), "shape": shape}));
        }
        for shape in 0..NEST_SHAPES {
            sink.case(|| json!({"kind": format!("nesting-{shape}"), "depth": 64, "src": nesting_source(shape, 64)}));
        }
        for (name, src) in definition_programs() {
            sink.case(|| json!({"kind": "definitions", "name": name, "src": src}));
        }
        // literals of every length 1..=80: numbers (with and without a sign), hex strings, strings (ASCII and wide
        // characters), the index and the txid of a utxo reference, identifiers - what an error message or a buffer is
        // cut to must not depend on where the text happens to end
        for n in 1..=80usize {
            let digits = "7".repeat(n);
            let lits = [
                ("number", digits.clone()),
                ("negative-number", format!("-{digits}")),
                ("hex", format!("0x{}", "ab".repeat(n))),
                ("odd-hex", format!("0x{}", "a".repeat(n))),
                ("string", format!("\"{}\"", "x".repeat(n))),
                ("wide-string", format!("\"{}\"", "é".repeat(n))),
                ("utxo-index", format!("0xabcdef#{digits}")),
                ("utxo-txid", format!("0x{}#1", "a".repeat(n))),
                ("identifier", "k".repeat(n)),
            ];
            for (what, lit) in lits {
                sink.case(|| json!({"kind": format!("literal-length-{what}"), "length": n, "src": format!("party A;\ntx t(x: Int) {{\n    output {{\n        to: A,\n        amount: Ada(1),\n        datum: {lit},\n    }}\n}}\n")}));
            }
        }
        // grammar derivations
        match Grammar::load() {
            Err(e) => sink.case(|| json!({"kind": "grammar-load-error", "error": e})),
            Ok(g) => {
                for focus in g.focus_rules() {
                    let mut gen = |c: &mut Chooser| g.derive(&focus, c, 12);
                    dbx::explore(grammar_k(tier), &mut gen, &mut |choices, _devs, toks| {
                        sink.case(|| json!({"kind": format!("grammar:{focus}"), "choices": choices, "src": tokens::join(&toks)}));
                    });
                }
            }
        }
        // token mutation of the example corpus
        for (name, src) in example_files() {
            if !tier.is_thorough() && HEAVY.contains(&name.as_str()) {
                continue;
            }
            let toks: Vec<String> = tokens::lex(&src).into_iter().map(|t| t.text).collect();
            sink.case(|| json!({"kind": "example", "file": name, "src": src}));
            sink.case(|| json!({"kind": "example-retokenised", "file": name, "src": tokens::join(&toks)}));
            token_mutants(&toks, &mut |m, i, t| {
                sink.case(|| json!({"kind": format!("tokmut-{m}"), "file": name, "token": i, "src": tokens::join(&t)}));
            });
        }
        for (name, src, m) in cycle_shapes() {
            sink.case(|| json!({"kind": name, "mentions": m, "src": src}));
        }
        // reference cycles (analysis cost grows as r^passes)
        let rmax = if tier.is_thorough() { 5 } else { 3 };
        for kind in 0..2 {
            for blocks in 1..=3usize {
                for r in 1..=rmax {
                    sink.case(|| json!({"kind": format!("cycle-{}", if kind == 0 { "inputs" } else { "locals" }), "blocks": blocks, "refs": r, "src": cycle_source(blocks, r, kind)}));
                }
            }
        }
    }

    fn case_kind(&self, case: &Value) -> String {
        let k = case["kind"].as_str().unwrap_or("case");
        // one family per abort signature: the grammar focus rule is too fine, the family is enough
        let fam = k.split(':').next().unwrap_or(k).to_string();
        let fam = if fam.starts_with("tokmut") { "tokmut".to_string() } else { fam };
        match cycle_kind(case["src"].as_str().unwrap_or("")) {
            Some(k) => format!("{fam}+{k}"),
            None => fam,
        }
    }

    fn run(&self, case: &Value) -> Outcome {
        let mut o = Outcome::default();
        if case["kind"] == "grammar-load-error" {
            panic!("harness: {}", case["error"]);
        }
        if let Some(shape) = case["shape"].as_u64() {
            // escalate the depth while the front end stays fast; exponential growth shows up as an early stop
            let mut reached = 0u64;
            for n in 1..=64usize {
                let src = nesting_source(shape as usize, n);
                let t = std::time::Instant::now();
                let (class, vs) = front(&src);
                o.evals += 1;
                o.class(class);
                o.key(hash64(&src));
                for v in vs {
                    o.violate(v);
                }
                reached = n as u64;
                if t.elapsed().as_millis() > 1000 {
                    break;
                }
            }
            o.max(&format!("nesting_depth_reached_shape_{shape}"), reached);
            return o;
        }
        let src = case["src"].as_str().unwrap_or("");
        let (class, vs) = front(src);
        o.evals = 1;
        o.class(class);
        o.key(hash64(src));
        for v in vs {
            o.violate(v);
        }
        o
    }
}
