#!/bin/sh
# usage: tools/ns_check.sh <slot> <patch.diff|-> <ID> [tier]
#
# Runs `./check <ID> <tier>` against a private copy of /repo (with the patch applied, "-" = unchanged) and a private
# copy of /verif, both bind-mounted over the real paths inside a private mount namespace. Neither /repo nor /verif is
# touched, so several of these can run at once and beside ordinary work. The copies live in /root/ns/<slot> and are
# reused between calls (incremental builds); `tools/ns_check.sh --clean` removes them all.
#
# prints: "== <patch> on <ID> (<tier>): exit=<rc> violations=<n> machinery=<n>" followed by the first VIOLATION lines
if [ "${1:-}" = "--clean" ]; then rm -rf /root/ns; exit 0; fi
SLOT="$1"; P="$2"; ID="$3"; T="${4:-quick}"
S=/root/ns/$SLOT
# where the copies are taken from: the live trees, or a snapshot of them (tools/ns_snapshot.sh) so that a long
# regression is not disturbed by work going on in /repo and /verif
RSRC="${NS_REPO_SRC:-/repo}"; VSRC="${NS_VERIF_SRC:-/verif}"
mkdir -p "$S/repo" "$S/verif"
# no -t: a file that differs is rewritten with a fresh mtime, so cargo sees it as changed in either direction
rsync -rlpgoD --checksum --delete --exclude target "$RSRC/" "$S/repo/"
if [ ! -d "$S/verif/target" ]; then
    # seed the build cache once (same absolute paths inside the namespace => fingerprints stay valid)
    rsync -a /verif/target/ "$S/verif/target/" --exclude run --exclude scratch
    rsync -a /verif/target-repo/ "$S/verif/target-repo/"
fi
rsync -rlpgoD --checksum --delete --exclude target --exclude target-repo --exclude replays --exclude .git --exclude seeded "$VSRC/" "$S/verif/"
if [ "$P" != "-" ]; then
    case "$P" in /*) ;; *) P="/verif/$P";; esac
    if ! git -C "$S/repo" apply --check "$P" 2>/dev/null; then echo "== $P on $ID ($T): PATCH-DOES-NOT-APPLY"; exit 3; fi
    git -C "$S/repo" apply "$P"
fi
LOGF="$S/check.$ID.log"
unshare -m sh -c "mount --bind '$S/repo' /repo && mount --bind '$S/verif' /verif && cd /verif && ./check '$ID' '$T'" >"$LOGF" 2>&1
RC=$?
echo "== $P on $ID ($T): exit=$RC violations=$(grep -c '^VIOLATION' "$LOGF") machinery=$(grep -c '^MACHINERY' "$LOGF") known=$(grep -c '^KNOWN-FINDING' "$LOGF")"
grep '^VIOLATION\|^MACHINERY' "$LOGF" | cut -c1-170 | head -4
exit $RC
