#!/bin/sh
# usage: tools/try_mutant.sh <patch.diff> <PROP> [tier]   -> applies the patch to /repo, runs the check, reverts
P="$1"; ID="$2"; T="${3:-quick}"
cd /verif
if ! git -C /repo apply --check "$P" 2>/dev/null; then echo "PATCH-DOES-NOT-APPLY $P"; exit 3; fi
git -C /repo apply "$P"
./check "$ID" "$T" > /verif/target/mutant.log 2>&1; RC=$?
git -C /repo checkout -- . ; git -C /repo clean -fdq -e target >/dev/null 2>&1
echo "== $P on $ID ($T): exit=$RC violations=$(grep -c '^VIOLATION' /verif/target/mutant.log) machinery=$(grep -c '^MACHINERY' /verif/target/mutant.log)"
grep '^VIOLATION\|^MACHINERY' /verif/target/mutant.log | cut -c1-170 | head -6
