#!/bin/sh
# usage: tools/new_mutant_round.sh <A> <B> <PROP>...   creates /tmp/wt/<PROP> (worktree of /repo HEAD) and /tmp/seeded/<PROP>.prompt.txt
# The prompt holds only the property text and the worktree path (nothing from /verif). FOCUS_<PROP>="..." adds a sentence
# (e.g. which source file of the repository both changes should be made in).
A="$1"; B="$2"; shift 2
mkdir -p /tmp/wt /tmp/seeded
for id in "$@"; do
  git -C /repo worktree add -q --detach /tmp/wt/$id HEAD || exit 1
  mkdir -p /tmp/seeded/$id
  python3 - "$id" "$A" "$B" <<'PY'
import sys,json,glob
i,a,b=sys.argv[1:4]
p=[json.loads(l) for l in open('/verif/properties.jsonl')]
p=[x for x in p if x['id']==i][0]
prop=f"{p['id']} - {p['title']}\n\nSTATEMENT: {p['statement']}\n\nQUANTIFIER: {p['quantifier']['text']}\n"
import os
if os.environ.get('WITH_ANCHORS'):
    anch=p.get('anchors',{})
    prop+="\nCODE THE PROPERTY IS ANCHORED IN (files): "+", ".join(anch.get('files',[]))+"\n"
    prop+="MECHANISMS: "+"; ".join(f"{m['name']} ({m['where']})" for m in anch.get('mechanism',[]))+"\n"
avoid=os.environ.get('FOCUS_'+i,'')
if avoid: avoid=avoid.rstrip()+' '
t=open('/verif/tools/mutant_prompt.tmpl').read()
t=t.replace('__WT__',f'/tmp/wt/{i}').replace('__ID__',i).replace('__PROP__',prop).replace('__A__',a).replace('__B__',b).replace('__AVOID__',avoid)
open(f'/tmp/seeded/{i}.prompt.txt','w').write(t)
PY
done
git -C /repo worktree list | wc -l
