#!/bin/sh
# usage: tools/process_mutant.sh <ID> <x> [slot] [check]   confirm (suite + demo both ways) and run the check against the change
ID="$1"; X="$2"; SLOT="${3:-8}"; CHK="${4:-$ID}"
cd /verif
tools/confirm_mutant.sh "$ID" "$X" > "/root/confirm_${ID}_$X.log" 2>&1 &
tools/ns_check.sh "$SLOT" "/tmp/seeded/$ID/$X/patch.diff" "$CHK" 2>&1 | head -4
wait
cat "/root/confirm_${ID}_$X.log"
