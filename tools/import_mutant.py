#!/usr/bin/env python3
# usage: tools/import_mutant.py <ID> <x> <detected-by-check> "<signatures / note>" "<confirm line>"
# copies /tmp/seeded/<ID>/<x>/{patch.diff,demo.*,meta.json} to /verif/seeded/<ID>-<x>/ and completes meta.json
import sys, os, json, shutil, subprocess, glob
i, x, chk, note, confirm = sys.argv[1:6]
src = f'/tmp/seeded/{i}/{x}'; dst = f'/verif/seeded/{i}-{x}'
os.makedirs(dst, exist_ok=True)
for f in glob.glob(src + '/patch.diff') + glob.glob(src + '/demo.*'):
    shutil.copy(f, dst)
try: meta = json.load(open(src + '/meta.json'))
except Exception as e: meta = {'property': i, 'summary': 'meta.json of the sub-agent was not valid JSON: ' + str(e)}
head = subprocess.run(['git', '-C', f'/tmp/wt/{i}', 'rev-parse', '--short', 'HEAD'], capture_output=True, text=True).stdout.strip()
meta['property'] = i
meta['base_commit'] = head
meta['confirmed'] = {'where': f'scratch worktree /tmp/wt/{i} at {head} (tools/confirm_mutant.sh)', 'result': confirm}
meta['detected_by'] = {'check': chk, 'signatures': note, 'command': f'tools/ns_check.sh 0 seeded/{i}-{x}/patch.diff {chk}'}
meta['origin'] = 'independent sub-agent given only the property text and a scratch worktree'
json.dump(meta, open(dst + '/meta.json', 'w'), indent=1)
print('imported', dst)
