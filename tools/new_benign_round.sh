#!/bin/sh
# usage: tools/new_benign_round.sh <A> <B> <PROP>...   like new_mutant_round.sh, but asks for behaviour-preserving changes
A="$1"; B="$2"; shift 2
mkdir -p /tmp/wt /tmp/seeded
for id in "$@"; do
  git -C /repo worktree add -q --detach /tmp/wt/$id HEAD || exit 1
  mkdir -p /tmp/seeded/$id
  python3 - "$id" "$A" "$B" <<'PY'
import sys,json
i,a,b=sys.argv[1:4]
p=[json.loads(l) for l in open('/verif/properties.jsonl')]
p=[x for x in p if x['id']==i][0]
anch=p.get('anchors',{})
prop=f"{p['id']} - {p['title']}\n\nSTATEMENT: {p['statement']}\n\nCODE THE PROPERTY IS ANCHORED IN (files): "+", ".join(anch.get('files',[]))+"\nMECHANISMS: "+"; ".join(f"{m['name']} ({m['where']})" for m in anch.get('mechanism',[]))+"\n"
t=open('/verif/tools/benign_prompt.tmpl').read()
t=t.replace('__WT__',f'/tmp/wt/{i}').replace('__ID__',i).replace('__PROP__',prop).replace('__A__',a).replace('__B__',b)
open(f'/tmp/seeded/{i}.prompt.txt','w').write(t)
PY
done
git -C /repo worktree list | wc -l
