#!/bin/sh
# usage: tools/confirm_mutant.sh <PROP> <x>   (uses scratch worktree /tmp/wt/<PROP> and /tmp/seeded/<PROP>/<x>)
# confirms: patch applies, workspace tests pass with it, demo fails with it and passes without it
ID="$1"; X="$2"; WT=/tmp/wt/$ID; D=/tmp/seeded/$ID/$X
export CARGO_TARGET_DIR=$WT/target CARGO_NET_OFFLINE=true
cd $WT || exit 2
git checkout -q -- . ; git clean -fdq -e target
git apply $D/patch.diff || { echo "$ID/$X: PATCH FAILS"; exit 1; }
SUITE=$(cargo test --workspace --offline --no-fail-fast 2>&1 | grep -E "^test result|^test .* FAILED" | awk '/^test result/ {p+=$4; f+=$6} /FAILED$/ {n=n" "$2} END {print p" passed "f" failed" (n ? " (failed:" n ")" : "")}')
run_demo() {
  if [ -f $D/demo.sh ]; then
    sh $D/demo.sh $WT 2>&1 | grep -E "^test result|exit|distinct" | tail -2 | tr '\n' ' '
  else
    demo=$D/demo.rs
    if grep -q "CARGO_BIN_EXE_tx3c\|tx3c" $demo && [ "$ID" = "C17" -o "$ID" = "C18" ]; then CR=tx3c; DIR=bin/tx3c;
    elif grep -q "tx3_cardano" $demo; then CR=tx3-cardano; DIR=crates/$CR; elif grep -q "tx3_resolver" $demo; then CR=tx3-resolver; DIR=crates/$CR; elif grep -q "tx3_lang" $demo; then CR=tx3-lang; DIR=crates/$CR; else CR=tx3-tir; DIR=crates/$CR; fi
    mkdir -p $DIR/tests; cp $demo $DIR/tests/demo.rs
    timeout 600 cargo test --offline -p $CR --test demo 2>&1 | grep -E "^test result|SIGABRT|overflowed" | tail -1 | tr '\n' ' '
    rm -f $DIR/tests/demo.rs
  fi
}
WITH=$(run_demo)
git checkout -q -- . ; git clean -fdq -e target
WITHOUT=$(run_demo)
git checkout -q -- . ; git clean -fdq -e target
echo "$ID/$X: suite: $SUITE | demo with change: $WITH | demo without: $WITHOUT"
