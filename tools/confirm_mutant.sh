#!/bin/sh
# usage: tools/confirm_mutant.sh <PROP> <x>   (uses scratch worktree /tmp/wt/<PROP> and /tmp/seeded/<PROP>/<x>)
# confirms: patch applies, workspace tests pass with it, demo fails with it and passes without it
ID="$1"; X="$2"; WT=/tmp/wt/$ID; D=/tmp/seeded/$ID/$X
export CARGO_TARGET_DIR=$WT/target CARGO_NET_OFFLINE=true
cd $WT || exit 2
git checkout -q -- . ; git clean -fdq -e target
demo=$D/demo.rs
if grep -q "tx3_cardano" $demo; then CR=tx3-cardano; elif grep -q "tx3_resolver" $demo; then CR=tx3-resolver; elif grep -q "tx3_lang" $demo; then CR=tx3-lang; else CR=tx3-tir; fi
mkdir -p crates/$CR/tests
git apply $D/patch.diff || { echo "$ID/$X: PATCH FAILS"; exit 1; }
SUITE=$(cargo test --workspace --offline 2>&1 | grep -E "^test result" | awk '{p+=$4; f+=$6} END {print p" passed "f" failed"}')
cp $demo crates/$CR/tests/demo.rs
WITH=$(cargo test --offline -p $CR --test demo 2>&1 | grep -E "^test result" | tail -1)
git checkout -q -- . ; 
WITHOUT=$(cargo test --offline -p $CR --test demo 2>&1 | grep -E "^test result" | tail -1)
rm -f crates/$CR/tests/demo.rs; git clean -fdq -e target
echo "$ID/$X [$CR]: suite: $SUITE | demo with change: $WITH | demo without: $WITHOUT"
