#!/usr/bin/env python3
"""Regenerates /verif/MANIFEST.json from the table below (single source of truth for the interface)."""
import json, sys

E1 = "dbx/enumeration engine (tx3-mc)"
CHECKS = {
 "C15": dict(cat="exploration", design="§3 C15", technique="bounded exhaustive enumeration of operands and construction paths against a Z^3 reference model",
   text="Complete enumeration of all triples of 3-class vectors with amounts -2..2, all pairs x 9x9 construction paths, the same laws through reduce, and a boundary sweep over wide amounts and policy/name lengths; every instance is executed on the real CanonicalAssets and compared with an integer-vector reference. Exhaustive below the stated alphabet, silent about amounts outside it.",
   note="Reference model = BTreeMap with zeros dropped; containment judged on non-negative operands only; overflowing pairs excluded (the quantifier says 'without overflow')."),
 "C03": dict(cat="exploration", design="§3 C03", technique="bounded exhaustive enumeration of (store, query, candidate-set order) against a specification predicate",
   text="Every multiset store up to the bound x every query of the product alphabet is run through tx3_resolver::inputs::resolve (the narrowest public seam that reaches narrowing and selection); the iteration order of the candidate set handed to the selector is an enumerated environment choice; soundness and completeness are judged by a predicate written from the property text. Exhaustive below the bound; the 50-candidate window is probed with 49/50/51-UTxO stores.",
   note="Amounts are non-negative and small; completeness only claimed for <= 50 specification candidates and for queries reachable from the language (single ref); the HashSet built inside SearchSpace::take is not observable."),
 "C04": dict(cat="exploration", design="§3 C04", technique="bounded exhaustive enumeration of block tuples (visiting schedules) x stores x candidate-set orders",
   text="Every ordered tuple of up to 3 (thorough: 4) overlapping block types (11 types, two of them without `from`: ref-only and token-only) x every multiset store of up to 4 UTxOs at one address x optional collateral x every name-to-source-position assignment, through inputs::resolve and then reduce + Compiler::compile; selections must be pairwise disjoint, each block sound with respect to what earlier blocks took, and the emitted input list equal to the union of the selections without duplicates. A language-level family (2-3 input blocks named from 8 spellings incl. case variants and `collateral`, with / without a collateral block, single / many, 0..4 UTxOs) goes through parse / analyze / lower / resolve / compile with the same disjointness oracle.",
   note="No global completeness (matching) claim; block types and stores limited to the stated alphabets."),
 "C12": dict(cat="exploration", design="§3 C12", technique="deviation-bounded exhaustive enumeration of grammar derivations and single token edits, each case in an isolated worker",
   text="tx3.pest is read with pest_meta and, for every rule reachable from `program`, every derivation with <= 2 (thorough: 3) deviations inside that rule is generated in its shortest context; every single token edit (delete, duplicate, swap, 24 replacements, literal stretching) of every example program; 9 recursive shapes escalated to depth 64; reference cycles. Every string is parsed and, if it parses, analysed in a worker process under a 10 s / 4 GiB cap with the case announced beforehand, so a panic, abort or hang is attributed to its input. Exhaustive below the deviation bound; silent about strings needing more deviations.",
   note="Panic signatures are the enclosing tx3 function (from a backtrace) + normalised message; hang/abort signatures are case family + front-end phase. Timing cap is part of the definition of 'fails to terminate'."),
 "C19": dict(cat="exploration", design="§3 C19", technique="bounded exhaustive enumeration of erroneous sources (C12 enumeration + error injected at every token boundary of multi-line / multi-byte bases)",
   text="Every source of the C12 enumeration plus 8 offending tokens (three of them multi-byte characters placed exactly where the parser stops) injected at every token boundary of 12 multi-line bases (LF / CRLF, tabs, multi-byte comments and strings before the error). Each parse diagnostic's span must lie within the text the diagnostic carries, on char boundaries, and render through miette; each located analysis diagnostic must lie within the input and, for not-in-scope, cover exactly the reported name.",
   note="Diagnostics with dummy spans are only counted; inputs that crash the front end belong to C12."),
 "C13": dict(cat="exploration", design="§3 C13", technique="bounded exhaustive enumeration of single textual/semantic mutations of a program corpus, oracle accepted => lowerable",
   text="Every source of the C12 enumeration plus, over the example corpus and two feature bases: every identifier token replaced by every other identifier of the program and by the built-in names, every call arity changed to 0 and +1, every line deleted / duplicated, every literal malformed, local chains of every length 1..16. For every program the analyzer accepts, lowering of every tx and Workspace::lower must succeed without panic.",
   note="Known analyzer gaps are listed per input (known/C13.corpus.inputs) for corpus-derived programs and per signature for grammar-derived ones; a new accepted-but-unlowerable corpus program is reported even if its failure looks like a known one."),
 "C09": dict(cat="exploration", design="§3 C09", technique="bounded exhaustive enumeration per axis (constructor index, field shapes <= 2 deviations, boundary integers, byte lengths) with an independent Plutus-Data reader as oracle",
   text="Programs generated from source run through the whole pipeline; the inline datum / redeemer bytes of the emitted transaction are decoded with a Plutus-Data reader written from the plutus-core CDDL on top of an independent CBOR reader and compared with the value the expression denotes. Complete per axis: (N, i) constructor pairs, every +-2^k / +-(2^k+-1) integer, every byte length 0..100, all field-shape executions with <= 2 deviations (15 field kinds incl. maps whose keys are not ascending numerically, bytewise or by encoded length - entry order is part of the value), each in datum and redeemer position.",
   note="Expected encoding conventions (records = Constr 0, Bool = Constr 0/1, unit = Constr 0, strings as bytes) are taken from the language documentation; my reader is the trusted decoder."),
 "C08": dict(cat="exploration", design="§3 C08", technique="bounded exhaustive enumeration of relative orders of inputs / policies / reward accounts, oracle = ledger-sorted redeemer map",
   text="Constant TIRs with 1..4 script inputs (single and 2-UTxO, both set iteration orders) over a ref pool whose txid order, numeric index order, textual index order and length-first CBOR order all disagree (indices 3 / 24 / 256; all injective assignments), all sequences of 0..3 mints/burns over 3 policies and of 0..2 withdrawals over 3 reward accounts are compiled; the decoded witness-set map (tag, index) -> data must equal the map obtained by sorting the source items as the ledger does.",
   note="One redeemer value per block / policy / account; certificates and votes not covered; quick tier explores each axis completely against fixed configurations of the other two, thorough the full product."),
 "C10": dict(cat="exploration", design="§3 C10", technique="exhaustive enumeration of all 2^19 optional-feature subsets of a constant template, payload re-decoded and hashes recomputed independently",
   text="Every subset of 19 optional transaction features (incl. a second minting policy next to one whose mint and burn cancel, and output entries that cancel next to one that survives) is compiled; the payload must decode with pallas as Conway, its body bytes (located by an independent CBOR reader) must hash to the reported hash, auxiliary and script data hashes must be present exactly when needed and equal digests recomputed from the payload (language views re-encoded from the configured cost model), set-like fields must have no duplicate or empty entries, network id must match, and recompilation (same compiler, fresh compiler, other iteration order of a 2-UTxO set) must be byte-identical. The two networks are configured with different cost models and every case is first compiled by an instance carrying the other configuration, so nothing derived from a configuration may outlive its instance.",
   note="pallas decoding and blake2b are trusted; a compile error is accepted only for the one feature combination where a redeemer guards a policy whose mint and burn cancel."),
 "C06": dict(cat="exploration", design="§3 C06", technique="exhaustive enumeration of IR contexts (every variant x child slot, nested to depth 2) x probes x Tx fields, oracle = generic structural walk of the serialised IR",
   text="Every one-level context (each Expression / BuiltInOp / CompilerOp / Coerce / Param / InputQuery / AssetExpr / AdHocDirective variant with the hole in each child slot) and every two-level nesting, around a parameter / query / fees / query-holding-a-parameter probe, placed in each of 19 Tx fields, plus every tx of the corpus: whatever a generic walk of the serialised TIR finds unresolved must be reported by find_params / find_queries, must be gone after supplying everything reported, and withholding any reported parameter must give MissingTxArg naming it.",
   note="Ill-typed trees whose application or reduction errs are counted but not judged for the closure clause; language-level position deviations are covered through the corpus only."),
 "C11": dict(cat="exploration", design="§3 C11", technique="exhaustive enumeration of IR trees for round trip; exhaustive single-position corruption (every truncation / bit flip / byte substitution) of valid encodings, each block in an isolated worker",
   text="Round trip of every tirgen tree (depth <= 2), leaf sweeps over boundary integers / lengths / UTxO sets, and every lowered corpus tx (canonical equality and equal reported parameters / queries); for 40 valid encodings every prefix, every single-bit flip, 18 byte substitutions at every offset, spliced nesting bombs and length bombs at every offset, standalone bombs to depth 10^6 and 7 version strings must make from_bytes return Ok or Err under a 10 s / 4 GiB cap.",
   note="Multi-position corruptions beyond bombs are not covered; canonical form sorts maps and UTxO sets."),
 "C14": dict(cat="exploration", design="§3 C14", technique="exhaustive enumeration of (IR tree | corpus tx) x per-type boundary argument alphabets x stores x protocol parameters, every back-end entry point driven in isolated workers",
   text="Every tirgen tree (depth 1, thorough: 2) and every corpus tx is driven through resolve_tx and through each stage (apply_args, apply_fees, reduce, compiler ops, apply_inputs, reduce, compile on possibly non-constant IR) for every value of the boundary alphabet of each parameter (37 integers, byte / address lengths incl. 27..29, 31..33, 56..58, txid lengths, 9 wrong-typed values), 4 stores (empty, odd UTxOs, extreme amounts) and 6 protocol-parameter sets (missing cost models, 0 and 2^64-1 fee coefficients). Every call must return.",
   note="One non-default argument at a time (pairs in thorough for IR trees via nesting); panic signatures are function + normalised message."),
 "C16": dict(cat="exploration", design="§3 C16", technique="exhaustive enumeration of values x encodings and of every single-character edit of every valid encoding, oracle = independently written strict codec",
   text="Every boundary integer / boolean spelling / byte length 0..33 / address form / utxo ref in every documented encoding must invert; every single-character edit of every valid string encoding and 36 JSON values of every kind, against all 5 argument types, must be accepted exactly when an independently written strict decoder (own hex, base64, bech32) says the text denotes the returned value; requests with 0..3 declared parameters in all 2^n args/env splits, undeclared extras and 12 envelope variants must yield exactly the declared subset or an error, never a panic.",
   note="Strict codec embodies my reading of the documented encodings (signed decimal strings, one optional 0x, bech32 with any prefix); multi-character corruptions only via the JSON-kind list."),
 "C17": dict(cat="exploration", design="§3 C17", technique="deviation-bounded exhaustive enumeration of identifier spellings / usage patterns, each program compiled by the real tx3c binary and read back",
   text="Every corpus program and every execution with <= 2 (thorough 3) deviations of a spelling generator (5 spellings for parameters, parties and env fields; unused / used / colliding third parameter; env usage; policy; keys used only in signers / validity / reference blocks; second transactions) and every distinct program of the typed program generator with <= 2 (thorough 3) deviations is compiled with `tx3c build --emit tii`; the TII must list exactly the program's transactions, its embedded IR must decode to the canonical form of in-process lowering, the keys the IR requires must be declared with identical spelling and without collisions, and a request built from exactly the declared keys must not be answered with MissingTxArg.",
   note="The binary is rebuilt from /repo by ./check; derived policy-script parameters are reported under a separate signature."),
 "C18": dict(cat="exploration", design="§3 C18", technique="repetition until every observed-container iteration order is covered (in-process) plus fresh processes; oracle = byte equality",
   text="For every corpus program, directive-bearing bases, spelling-generator programs and every distinct program of the typed generator with <= 2 (thorough 3) deviations, parse+analyze+lower+to_bytes is repeated in one process at least 20 times and until every iteration order of every directive field map (k! for k <= 4) has been observed; three fresh tx3c processes emit the TII; all encodings and files must be byte-identical and the embedded IR equal to the in-process encoding; every corpus program additionally goes through 12 fresh tx3c processes with one command line declaring profiles (one bound to three disagreeing env files, forced profiles) and must give one byte string.",
   note="Hash-map order is observed, not chosen (std's hasher keys are per instance); coverage of orders is measured and reported; publish directives (5 fields) require 24 distinct orders; an observed difference is the counterexample and need not reproduce on replay."),
 "C05": dict(cat="model_checking", design="§3 C05", technique="explicit-state exploration of the fee map's orbit (each transition executes the real round) over an exhaustive protocol-parameter grid",
   text="Rounds of the resolve loop are transitions of the system fee -> transaction -> fee; every transition executes the real apply_fees / compiler ops / reduce / inputs::resolve / compile. For every configuration of the grid (coefficient x constant x margin x utxo cost, plus CBOR width windows) and each of 14 template/store scenarios the orbit is followed to a fixed point, a cycle or 32 rounds and resolve_tx is called: whatever it returns must have body fee = reported fee = coefficient*|payload| + constant + margin, be reproduced by one more round, and balance against the store.",
   note="States are (configuration, scenario, compiled transaction) nodes, merged by byte equality of the compiled result; model = implementation, so every transition is validated by construction; round budget 10 as caller's argument."),
 "C20": dict(cat="model_checking", design="§3 C20", technique="explicit-state breadth-first search over histories of a real Compiler instance, state key = latest_tx_body bytes, invariant checked in every state for every target",
   text="A state is a history of resolutions / direct compilations replayed on a fresh identically configured tx3_cardano::Compiler, identified by the bytes of latest_tx_body (the other fields are asserted unchanged at every transition). From every reachable state every one of 17 actions (incl. templates whose arguments / inputs were applied upstream and that arrive with an empty argument map) is executed on a replica and its outcome (payload, hash, fee | error kind | panic) compared with the outcome on a fresh instance. Every transition is an execution of resolve_tx / compile.",
   note="The reachable state space closes after one step when the property holds (the state is the last compiled body); depth bound 3 (thorough 4); 3 stores x 3 protocol-parameter sets."),
 "C07": dict(cat="model_checking", design="§3 C07", technique="explicit-state search of the stage-order graph over real TIR values (all 24 stage orders x all reduce placements), invariants on every state and on the set of terminals",
   text="Per template a breadth-first search explores states (canonical TIR, applied stage set, last-was-reduce) whose transitions are the real apply_args / apply_inputs / apply_fees / Node::apply(compiler) / reduce, with compiler ops enabled exactly when a generic walk finds their operands free of unresolved parameters. All terminal states must carry one canonical template, no schedule may fail when another succeeds, and reduce must be idempotent in every state. Templates: corpus, built-in bases (literal / param / env / local operands), every distinct program of the typed generator with <= 1 (thorough: 2) deviations (incl. asset classes that come from parameters while the amounts are literals), all tirgen trees of depth <= 1.",
   note="Canonical form sorts maps, UTxO sets and asset lists (sums); single-UTxO inputs; fresh compiler per compiler-op stage."),
 "C01": dict(cat="exploration", design="§3 C01", technique="deviation-bounded exhaustive enumeration of typed programs x arguments x UTxOs x fee x network x layout; oracle = independent big-step semantics over the generator's tree vs. independently decoded transaction",
   text="Every execution of the typed program generator with <= 2 (thorough: 3) deviations from the plain transfer - program features, expression shapes and associations, datum kinds, mint/burn, validity built-ins, signers, metadata, references, collateral, argument value, UTxO contents, fee, network, 7 whitespace/comment layouts, block order, identifier spelling - is printed, run through parse/analyze/lower/apply/reduce/compile, decoded with an independent CBOR + Plutus-Data reader and compared field by field (inputs, outputs in order with address / lovelace / assets / inline datum, mint, validity interval, signers, reference and collateral inputs, metadata, fee, network) with the transaction [[P]] denotes. The 25 example programs the front end accepted at the starting snapshot must still parse, analyse and lower.",
   note="The reference semantics and the decoders are mine and are the trusted base; inputs are applied directly (selection is C03's); programs needing more deviations than the bound are not reached."),
 "C02": dict(cat="exploration", design="§3 C02", technique="exhaustive sweep of a boundary-value alphabet through every quantity sink of the generator's balanced programs, exact reference arithmetic as oracle (value or must-fail)",
   text="Every generator program with <= 1 (thorough: 2) deviations is run with each of 37 boundary integers routed into one quantity sink at a time (output lovelace, token amount, mint and burn amount, validity slots, metadata and datum integers, thresholds) and with 5 holdings of the main input, through the staged pipeline with an explicit fee and through resolve_tx with a real store. A produced transaction must carry exactly the reference quantities and balance per asset class; if the exact value does not fit its ledger field, or 128-bit arithmetic overflows, the call must fail.",
   note="Built with overflow checks off, as published crates run; known open findings (negative output amounts) are listed per input in known/C02.inputs; resolve path only for single-block programs."),
}
PENDING = {}

def main():
    props = [json.loads(l) for l in open('/verif/properties.jsonl')]
    checks = []
    na = []
    for p in props:
        i = p['id']
        if i in CHECKS:
            c = CHECKS[i]
            checks.append({
                "property_id": i,
                "quick_cmd": f"./check {i} quick",
                "thorough_cmd": f"./check {i} thorough",
                "evidence_file": f"/verif/evidence/{i}.json",
                "replay_cmd_template": f"./check {i} --replay {{path}}",
                "engine": c.get("engine", "tx3-mc"),
                "level_claimed": {"category": c["cat"], "text": c["text"], "design_ref": c["design"]},
                "level_note": c["note"],
                "technique": c["technique"],
            })
        else:
            na.append({"property_id": i, "reason": PENDING.get(i, "check not built yet in this round (see DESIGN.md §3 for the planned exploration); not claimed until it runs clean")})
    m = {
        "version": 1,
        "setup_cmd": "./check --build",
        "hooks": {
            "guard": "tx3_verif",
            "enable": "none needed: every seam used by the checks is public API or the tx3c binary; RUSTFLAGS=\"--cfg tx3_verif\" is reserved",
            "baseline_off_cmd": "cd /repo && cargo test --workspace --no-fail-fast --offline",
            "source_commits": [],
            "add_only": True,
        },
        "engines": [
            {"name": "tx3-mc", "path": "/verif/mc", "serves_properties": sorted(CHECKS.keys()),
             "kind_free_text": "Rust harness linked against /repo's crates by path: coordinator + 16 isolated worker processes; deviation-bounded exhaustive exploration of choice trees (dbx) and explicit-state breadth-first search whose transitions execute the implementation"},
        ],
        "checks": checks,
        "not_applicable": na,
        "notes": "All checks rebuild from /repo's working tree (path dependencies). Exit 0 = held (KNOWN-FINDING lines allowed), 1 = VIOLATION, 2 = machinery failure. Known findings: /verif/known_findings.jsonl.",
    }
    json.dump(m, open('/verif/MANIFEST.json', 'w'), indent=1)
    print(f"checks={len(checks)} not_applicable={len(na)}")

if __name__ == '__main__':
    main()
