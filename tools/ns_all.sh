#!/bin/sh
# usage: tools/ns_all.sh <slot> <patch.diff|-> [ID...]
# Applies the patch to a private copy of /repo and runs the quick tier of every check (or of the named ones) against it
# inside a private mount namespace (see ns_check.sh). Prints one line per check that did not exit 0, then a summary.
SLOT="$1"; P="$2"; shift 2
IDS="${*:-C01 C02 C03 C04 C05 C06 C07 C08 C09 C10 C11 C12 C13 C14 C15 C16 C17 C18 C19 C20}"
S=/root/ns/$SLOT
mkdir -p "$S/repo" "$S/verif"
rsync -rlpgoD --checksum --delete --exclude target "${NS_REPO_SRC:-/repo}/" "$S/repo/"
if [ ! -d "$S/verif/target" ]; then
    rsync -a /verif/target/ "$S/verif/target/" --exclude run --exclude scratch
    rsync -a /verif/target-repo/ "$S/verif/target-repo/"
fi
rsync -rlpgoD --checksum --delete --exclude target --exclude target-repo --exclude replays --exclude .git --exclude seeded "${NS_VERIF_SRC:-/verif}/" "$S/verif/"
if [ "$P" != "-" ]; then
    case "$P" in /*) ;; *) P="/verif/$P";; esac
    if ! git -C "$S/repo" apply --check "$P" 2>/dev/null; then echo "== $P: PATCH-DOES-NOT-APPLY"; exit 3; fi
    git -C "$S/repo" apply "$P"
fi
BAD=0
for ID in $IDS; do
    LOGF="$S/check.$ID.log"
    unshare -m sh -c "mount --bind '$S/repo' /repo && mount --bind '$S/verif' /verif && cd /verif && ./check '$ID' quick" >"$LOGF" 2>&1
    RC=$?
    if [ $RC -ne 0 ]; then
        BAD=$((BAD+1))
        echo "   $ID exit=$RC $(grep '^VIOLATION\|^MACHINERY' "$LOGF" | head -2 | cut -c1-150 | tr '\n' ' ')"
    fi
done
echo "== $P: $BAD check(s) raised an alarm"
[ $BAD -eq 0 ]
