#!/bin/sh
# usage: tools/seeded_regression.sh [slots=4] [pattern]
#
# For every kept change under seeded/ (optionally only those whose directory name matches the shell pattern): run the
# check named in its meta.json (detected_by.check, default: the property it breaks) against a private copy of /repo
# with the change applied (tools/ns_check.sh), and record whether the check reports a violation. First it runs every
# check once on the unchanged copy (must exit 0). Writes seeded/REGRESSION.txt.
cd /verif
SLOTS="${1:-4}"; PAT="${2:-*}"
# work from a snapshot of both trees, so that the run is not disturbed by (and does not constrain) work in them
eval "$(tools/ns_snapshot.sh)"
exec python3 - "$SLOTS" "$PAT" <<'PY'
import sys, os, json, glob, subprocess, fnmatch, threading, queue, time
slots = int(sys.argv[1]); pat = sys.argv[2]
jobs = []
superseded = {}
for d in sorted(glob.glob('/verif/seeded/*/')):
    name = os.path.basename(d.rstrip('/'))
    if not fnmatch.fnmatch(name, pat): continue
    try: meta = json.load(open(d + 'meta.json'))
    except Exception: continue
    chk = (meta.get('detected_by') or {}).get('check') or meta['property']
    chk = chk.split()[0].strip(',;')
    if meta.get('superseded_by'):
        superseded[name] = meta['superseded_by']
        continue
    patch = d + 'patch.diff'
    for alt in ('patch.rebased.diff', 'patch.api-compatible.diff'):
        if os.path.exists(d + alt): patch = d + alt
    jobs.append((name, patch, chk))
q = queue.Queue()
for j in jobs: q.put(j)
res = {}
def worker(slot):
    while True:
        try: name, patch, chk = q.get_nowait()
        except queue.Empty: return
        p = subprocess.run(['/verif/tools/ns_check.sh', str(slot), patch, chk], capture_output=True, text=True)
        res[name] = (chk, p.returncode, p.stdout.strip().splitlines())
        print(f'{name}: check {chk} exit={p.returncode}', flush=True)
ts = [threading.Thread(target=worker, args=(s,)) for s in range(slots)]
[t.start() for t in ts]; [t.join() for t in ts]
head = subprocess.run(['git', '-C', os.environ.get('NS_REPO_SRC', '/repo'), 'rev-parse', '--short', 'HEAD'], capture_output=True, text=True).stdout.strip()
lines = [f'# seeded regression at /repo {head}, {time.strftime("%Y-%m-%d %H:%M")}; detected = the named check exits 1 with a VIOLATION line']
bad = 0
for name, patch, chk in jobs:
    c, rc, out = res[name]
    if rc == 1: st = 'DETECTED'
    elif rc == 3: st = 'PATCH-DOES-NOT-APPLY (repository moved on; see meta.json base_commit)'
    elif rc == 0: st = 'MISSED'; bad += 1
    else: st = f'MACHINERY (exit {rc})'; bad += 1
    first = next((l for l in out if l.startswith('VIOLATION')), '')
    lines.append(f'{name}\t{c}\t{st}\t{first}')
for name, sb in sorted(superseded.items()):
    lines.append(f"{name}\t-\tSUPERSEDED by fix {sb['commit']}: {sb['why']}\t")
if pat == '*':
    open('/verif/seeded/REGRESSION.txt', 'w').write('\n'.join(lines) + '\n')
print('\n'.join(lines))
sys.exit(1 if bad else 0)
PY
