#!/bin/sh
# usage: eval "$(tools/ns_snapshot.sh)"    copies /repo and /verif (sources only) to /root/ns/snap and prints the
# two exports that make tools/ns_check.sh take its copies from there
mkdir -p /root/ns/snap/repo /root/ns/snap/verif
rsync -rlpgoD --checksum --delete --exclude target /repo/ /root/ns/snap/repo/
rsync -rlpgoD --checksum --delete --exclude target --exclude target-repo --exclude replays --exclude .git /verif/ /root/ns/snap/verif/
echo "export NS_REPO_SRC=/root/ns/snap/repo NS_VERIF_SRC=/root/ns/snap/verif"
