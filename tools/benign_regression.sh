#!/bin/sh
# usage: tools/benign_regression.sh [slots=3]
# Runs the quick tier of all 20 checks against every behaviour-preserving change kept under seeded/_benign/ (private
# copies, tools/ns_all.sh). Any check that does not exit 0 on one of them is a false alarm. Writes seeded/_benign/RESULT.txt
# (BENIGN_OUT=<file> to write elsewhere; BENIGN_IDS="C01 C04 ..." to run only those checks).
cd /verif
SLOTS="${1:-3}"
eval "$(tools/ns_snapshot.sh)"
ls -d seeded/_benign/*/ | sed 's#/$##' > /root/benign.list
rm -f /root/benign.out.*
# slot numbers: 10, 11, ... unless BENIGN_SLOTLIST names them
slot_of() { k=$1; if [ -n "${BENIGN_SLOTLIST:-}" ]; then set -- $BENIGN_SLOTLIST; shift $k; echo $1; else echo $((10 + k)); fi; }
i=0
while [ $i -lt "$SLOTS" ]; do
    ( n=0; while read d; do
        if [ $((n % SLOTS)) -eq $i ]; then P="$d/patch.diff"; [ -f "$d/patch.rebased.diff" ] && P="$d/patch.rebased.diff"; tools/ns_all.sh $(slot_of $i) "$P" $BENIGN_IDS; fi
        n=$((n+1))
      done < /root/benign.list ) > /root/benign.out.$i 2>&1 &
    i=$((i+1))
done
wait
OUT="${BENIGN_OUT:-seeded/_benign/RESULT.txt}"
{ echo "# quick checks (${BENIGN_IDS:-all 20}) against every behaviour-preserving change (repo $(git -C /repo rev-parse --short HEAD), $(date -u '+%Y-%m-%d %H:%M'))"; cat /root/benign.out.* | grep "^==\|^   C"; } > "$OUT"
cat "$OUT"
! grep -q "^   C" "$OUT"
